// Copyright 2013 The Go Authors. All rights reserved.
// Use of this source code is governed by a BSD-style
// license that can be found in the LICENSE file.

package exec

// Values
//
// All interpreter values are "boxed" in the empty interface, value.
// The range of possible dynamic types within value are:
//
// - bool
// - numbers (all built-in int/float/complex types are distinguished)
// - string
// - map[value]value --- maps for which  usesBuiltinMap(keyType)
//   *hashmap        --- maps for which !usesBuiltinMap(keyType)
// - chan value
// - []value --- slices
// - iface --- interfaces.
// - structure --- structs.  Fields are ordered and accessed by numeric indices.
// - array --- arrays.
// - *value --- pointers.  Careful: *value is a distinct type from *array etc.
// - *ssa.Function \
//   *ssa.Builtin   } --- functions.  A nil 'func' is always of type *ssa.Function.
//   *closure      /
// - tuple --- as returned by Return, Next, "value,ok" modes, etc.
// - iter --- iterators from 'range' over map or string.
// - bad --- a poison pill for locals that have gone out of scope.
// - rtype -- the interpreter's concrete implementation of reflect.Type
// - **deferred -- the address of a frame's defer stack for a Defer._Stack.
//
// Note that nil is not on this list.
//
// Pay close attention to whether or not the dynamic type is a pointer.
// The compiler cannot help you since value is an empty interface.

import (
	"bytes"
	"fmt"
	"go/types"
	"io"
	"strings"

	"golang.org/x/tools/go/ssa"
)

type value interface{}

type tuple []value

type array []value

type iface struct {
	t types.Type // never an "untyped" type
	v value
}

type structure []value

// For map, array, *array, slice, string or channel.
type iter interface {
	// next returns a Tuple (key, value, ok).
	// key and value are unaliased, e.g. copies of the sequence element.
	next() tuple
}

type closure struct {
	Fn  *ssa.Function
	Env []value
}

type bad struct{}

type rtype struct {
	t types.Type
}

func (x array) eq(t types.Type, _y interface{}) bool {
	y := _y.(array)
	tElt := t.Underlying().(*types.Array).Elem()
	for i, xi := range x {
		if !equals(tElt, xi, y[i]) {
			return false
		}
	}
	return true
}

func (x structure) eq(t types.Type, _y interface{}) bool {
	y := _y.(structure)
	tStruct := t.Underlying().(*types.Struct)
	for i, n := 0, tStruct.NumFields(); i < n; i++ {
		if f := tStruct.Field(i); !f.Anonymous() {
			if !equals(f.Type(), x[i], y[i]) {
				return false
			}
		}
	}
	return true
}

// nil-tolerant variant of types.Identical.
func sameType(x, y types.Type) bool {
	if x == nil {
		return y == nil
	}
	return y != nil && types.Identical(x, y)
}

func (x iface) eq(t types.Type, _y interface{}) bool {
	y := _y.(iface)
	return sameType(x.t, y.t) && (x.t == nil || equals(x.t, x.v, y.v))
}

func (x rtype) eq(_ types.Type, y interface{}) bool {
	return types.Identical(x.t, y.(rtype).t)
}

// equals returns true iff x and y are equal according to Go's
// linguistic equivalence relation for type t.
// In a well-typed program, the dynamic types of x and y are
// guaranteed equal.
func equals(t types.Type, x, y value) bool {
	switch x := x.(type) {
	case bool:
		return x == y.(bool)
	case int:
		return x == y.(int)
	case int8:
		return x == y.(int8)
	case int16:
		return x == y.(int16)
	case int32:
		return x == y.(int32)
	case int64:
		return x == y.(int64)
	case uint:
		return x == y.(uint)
	case uint8:
		return x == y.(uint8)
	case uint16:
		return x == y.(uint16)
	case uint32:
		return x == y.(uint32)
	case uint64:
		return x == y.(uint64)
	case uintptr:
		return x == y.(uintptr)
	case float32:
		return x == y.(float32)
	case float64:
		return x == y.(float64)
	case complex64:
		return x == y.(complex64)
	case complex128:
		return x == y.(complex128)
	case string:
		return x == y.(string)
	case *value:
		return x == y.(*value)
	case *channel:
		return x == y.(*channel)
	case bigval:
		yb := y.(bigval)
		if x.c != nil && yb.c != nil {
			return x.c.Cmp(yb.c) == 0
		}
		panic("equals on symbolic big.Int")
	case structure:
		return x.eq(t, y)
	case array:
		return x.eq(t, y)
	case iface:
		return x.eq(t, y)
	case rtype:
		return x.eq(t, y)
	}

	// Since map, func and slice don't support comparison, this
	// case is only reachable if one of x or y is literally nil
	// (handled in eqnil) or via interface{} values.
	panic(fmt.Sprintf("comparing uncomparable type %s", t))
}

// reflect.Value struct values don't have a fixed shape, since the
// payload can be a scalar or an aggregate depending on the instance.
// So store (and load) can't simply use recursion over the shape of the
// rhs value, or the lhs, to copy the value; we need the static type
// information.  (We can't make reflect.Value a new basic data type
// because its "structness" is exposed to Go programs.)

// load returns the value of type T in *addr.
func load(T types.Type, addr *value) value {
	if _, ok := (*addr).(bigval); ok {
		return *addr // a big.Int is one immutable model value, whatever its struct layout
	}
	switch T := T.Underlying().(type) {
	case *types.Struct:
		v := (*addr).(structure)
		a := make(structure, len(v))
		for i := range a {
			a[i] = load(T.Field(i).Type(), &v[i])
		}
		return a
	case *types.Array:
		v := (*addr).(array)
		a := make(array, len(v))
		for i := range a {
			a[i] = load(T.Elem(), &v[i])
		}
		return a
	default:
		return *addr
	}
}

// store stores value v of type T into *addr.
func store(T types.Type, addr *value, v value) {
	if _, ok := v.(bigval); ok {
		*addr = v
		return
	}
	switch T := T.Underlying().(type) {
	case *types.Struct:
		lhs := (*addr).(structure)
		rhs := v.(structure)
		for i := range lhs {
			store(T.Field(i).Type(), &lhs[i], rhs[i])
		}
	case *types.Array:
		lhs := (*addr).(array)
		rhs := v.(array)
		for i := range lhs {
			store(T.Elem(), &lhs[i], rhs[i])
		}
	default:
		*addr = v
	}
}

// Prints in the style of built-in println.
// (More or less; in gc println is actually a compiler intrinsic and
// can distinguish println(1) from println(interface{}(1)).)
func writeValue(buf *bytes.Buffer, v value) {
	switch v := v.(type) {
	case nil, bool, int, int8, int16, int32, int64, uint, uint8, uint16, uint32, uint64, uintptr, float32, float64, complex64, complex128, string:
		fmt.Fprintf(buf, "%v", v)

	case symInt:
		fmt.Fprintf(buf, "<sym %s>", v.t)
	case symBool:
		fmt.Fprintf(buf, "<sym %s>", v.t)
	case bigval:
		fmt.Fprintf(buf, "<big %s>", v.t)

	case *value:
		if v == nil {
			buf.WriteString("<nil>")
		} else {
			fmt.Fprintf(buf, "%p", v)
		}

	case iface:
		fmt.Fprintf(buf, "(%s, ", v.t)
		writeValue(buf, v.v)
		buf.WriteString(")")

	case structure:
		buf.WriteString("{")
		for i, e := range v {
			if i > 0 {
				buf.WriteString(" ")
			}
			writeValue(buf, e)
		}
		buf.WriteString("}")

	case array:
		buf.WriteString("[")
		for i, e := range v {
			if i > 0 {
				buf.WriteString(" ")
			}
			writeValue(buf, e)
		}
		buf.WriteString("]")

	case []value:
		buf.WriteString("[")
		for i, e := range v {
			if i > 0 {
				buf.WriteString(" ")
			}
			writeValue(buf, e)
		}
		buf.WriteString("]")

	case *ssa.Function, *ssa.Builtin, *closure:
		fmt.Fprintf(buf, "%p", v) // (an address)

	case rtype:
		buf.WriteString(v.t.String())

	case tuple:
		// Unreachable in well-formed Go programs
		buf.WriteString("(")
		for i, e := range v {
			if i > 0 {
				buf.WriteString(", ")
			}
			writeValue(buf, e)
		}
		buf.WriteString(")")

	default:
		fmt.Fprintf(buf, "<%T>", v)
	}
}

// Implements printing of Go values in the style of built-in println.
func toString(v value) string {
	var b bytes.Buffer
	writeValue(&b, v)
	return b.String()
}

// ------------------------------------------------------------------------
// Iterators

type stringIter struct {
	*strings.Reader
	i int
}

func (it *stringIter) next() tuple {
	okv := make(tuple, 3)
	ch, n, err := it.ReadRune()
	ok := err != io.EOF
	okv[0] = ok
	if ok {
		okv[1] = it.i
		okv[2] = ch
	}
	it.i += n
	return okv
}

