package exec

// protobuf glue (DESIGN §3.5): anypb.New keeps the content object; Marshal /
// Unmarshal / UnmarshalNew are the identity on content and routing flags. The
// reflection-based codec itself is trusted and not examined.

import (
	"go/types"
)

// wireBlob is the value of the []byte returned by proto.Marshal.
type wireBlob struct {
	content value // iface holding the message content
}

func (p *pathRun) anyContent(ptr *value) (value, bool) {
	v, ok := p.anyTab[ptr]
	return v, ok
}

func init() {
	intrinsics["google.golang.org/protobuf/types/known/anypb.New"] = func(fr *frame, a []value) value {
		p := fr.i.p
		res := fr.fn.Signature.Results().At(0).Type() // *anypb.Any
		var s value = zero(mustDeref(res))
		ptr := &s
		if p.anyTab == nil {
			p.anyTab = map[*value]value{}
		}
		p.anyTab[ptr] = a[0]
		return tuple{ptr, iface{}}
	}
	intrinsics["google.golang.org/protobuf/proto.Marshal"] = func(fr *frame, a []value) value {
		p := fr.i.p
		itf := a[0].(iface)
		if itf.t == nil {
			return tuple{[]value(nil), iface{}}
		}
		ptr, ok := itf.v.(*value)
		if !ok || ptr == nil {
			fr.nilDeref("proto.Marshal of nil message")
		}
		if c, ok := p.anyContent(ptr); ok {
			return tuple{&wireBlob{content: c}, iface{}}
		}
		// any other message: carry the message itself
		return tuple{&wireBlob{content: itf}, iface{}}
	}
	intrinsics["google.golang.org/protobuf/proto.Unmarshal"] = func(fr *frame, a []value) value {
		p := fr.i.p
		itf := a[1].(iface)
		ptr := itf.v.(*value)
		switch b := a[0].(type) {
		case *wireBlob:
			if p.anyTab == nil {
				p.anyTab = map[*value]value{}
			}
			p.anyTab[ptr] = b.content
			return iface{}
		case []value:
			// raw bytes that did not come from Marshal: the codec is outside the model, except
			// for input no protobuf message can start with: a first tag byte with wire type 6 or 7
			// (or the reserved field number 0) is refused by every decoder
			if len(b) > 0 {
				if b0, ok := b[0].(uint8); ok && (b0&7 >= 6 || b0>>3 == 0) {
					return fr.i.newError("<proto: cannot parse invalid wire-format data>")
				}
			}
			panic(unsupported("proto.Unmarshal of raw wire bytes (protobuf codec is not modelled)"))
		}
		panic(unsupported("proto.Unmarshal: unexpected argument"))
	}
	intrinsics["(*google.golang.org/protobuf/types/known/anypb.Any).UnmarshalNew"] = func(fr *frame, a []value) value {
		p := fr.i.p
		ptr := a[0].(*value)
		if ptr == nil {
			fr.nilDeref("UnmarshalNew on nil Any")
		}
		if c, ok := p.anyContent(ptr); ok {
			return tuple{c, iface{}}
		}
		return tuple{iface{}, fr.i.newError("anypb: empty message")}
	}
	intrinsics["google.golang.org/protobuf/proto.MessageName"] = func(fr *frame, a []value) value {
		itf := a[0].(iface)
		if itf.t == nil {
			return ""
		}
		return types.TypeString(itf.t, nil)
	}
}
