package exec

// Intrinsics for the harness API package <module>/zzverifapi and the registry.

import (
	"os"
	"fmt"
	"go/types"
	"math/big"
	"strings"

	"golang.org/x/tools/go/ssa"

	"gosym/smt"
)

type externalFn func(fr *frame, args []value) value

// intrinsics is keyed by ssa.Function.String().
var intrinsics = map[string]externalFn{}

// pkgRules: package-level handlers (opaque packages).
type pkgRule func(fn *ssa.Function) externalFn

var pkgRules = map[string]pkgRule{}

func pkgIntrinsic(pkg string, fn *ssa.Function) externalFn {
	if r, ok := pkgRules[pkg]; ok {
		return r(fn)
	}
	return nil
}

const apiPkg = "github.com/bnb-chain/tss-lib/v2/zzverifapi"

func init() {
	reg := func(name string, f externalFn) { intrinsics[apiPkg+"."+name] = f }
	reg("NondetBigInt", func(fr *frame, a []value) value {
		p := fr.i.p
		return p.newBig(p.nondetVar(a[0].(string), smt.Int))
	})
	reg("NondetNat", func(fr *frame, a []value) value {
		p := fr.i.p
		v := p.nondetVar(a[0].(string), smt.Int)
		p.addPC(p.ctx.Ge(v, p.ctx.IntC64(0)))
		p.markNonNeg(v)
		return p.newBig(v)
	})
	reg("NondetBool", func(fr *frame, a []value) value {
		p := fr.i.p
		return normBool(p.nondetVar(a[0].(string), smt.Bool))
	})
	reg("NondetByte", func(fr *frame, a []value) value {
		p := fr.i.p
		return symInt{types.Uint8, p.nondetVar(a[0].(string), smt.BV(8))}
	})
	reg("NondetBytes", func(fr *frame, a []value) value {
		p := fr.i.p
		n := int(fr.concInt(a[1], "NondetBytes length"))
		out := make([]value, n)
		for i := range out {
			out[i] = symInt{types.Uint8, p.nondetVar(fmt.Sprintf("%s_%d", a[0].(string), i), smt.BV(8))}
		}
		return out
	})
	reg("NondetInt64", func(fr *frame, a []value) value {
		p := fr.i.p
		return symInt{types.Int64, p.nondetVar(a[0].(string), smt.BV(64))}
	})
	reg("NondetUint64", func(fr *frame, a []value) value {
		p := fr.i.p
		return symInt{types.Uint64, p.nondetVar(a[0].(string), smt.BV(64))}
	})
	reg("NondetUint32", func(fr *frame, a []value) value {
		p := fr.i.p
		return symInt{types.Uint32, p.nondetVar(a[0].(string), smt.BV(32))}
	})
	reg("NondetInt", func(fr *frame, a []value) value {
		// NondetInt(name, lo, hi): an int in [lo,hi]
		p := fr.i.p
		c := p.ctx
		// enumerated eagerly: a free choice needs no feasibility query, and the
		// harness gets a concrete int (shapes, lengths, indices)
		v := p.nondetVar(a[0].(string), smt.BV(64))
		lo, hi := asInt64(a[1]), asInt64(a[2])
		if lo > hi {
			p.finish("pruned", "empty NondetInt range")
		}
		for val := lo; val < hi; val++ {
			if p.freeFork(c.Eq(v, c.BVC(64, big.NewInt(val)))) {
				return int(val)
			}
		}
		p.addPC(c.Eq(v, c.BVC(64, big.NewInt(hi))))
		return int(hi)
	})
	reg("Assume", func(fr *frame, a []value) value {
		p := fr.i.p
		p.assume(a[0].(string), p.boolTerm(a[1]))
		return nil
	})
	reg("Assert", func(fr *frame, a []value) value {
		p := fr.i.p
		p.assert(fr.caller, a[0].(string), p.boolTerm(a[1]))
		return nil
	})
	// Observe: an obligation that does not constrain the continuation of the path
	reg("Observe", func(fr *frame, a []value) value {
		p := fr.i.p
		p.observing = true
		p.assert(fr.caller, a[0].(string), p.boolTerm(a[1]))
		p.observing = false
		return nil
	})
	reg("Reach", func(fr *frame, a []value) value {
		fr.i.p.checkFeasible("Reach " + a[0].(string))
		fr.i.p.res.Reached[a[0].(string)] = true
		return nil
	})
	reg("All", func(fr *frame, a []value) value {
		p := fr.i.p
		var ts []*smt.Term
		for _, v := range a[0].([]value) {
			ts = append(ts, p.boolTerm(v))
		}
		return normBool(p.ctx.And(ts...))
	})
	reg("Any", func(fr *frame, a []value) value {
		p := fr.i.p
		var ts []*smt.Term
		for _, v := range a[0].([]value) {
			ts = append(ts, p.boolTerm(v))
		}
		return normBool(p.ctx.Or(ts...))
	})
	reg("Implies", func(fr *frame, a []value) value {
		p := fr.i.p
		return normBool(p.ctx.Implies(p.boolTerm(a[0]), p.boolTerm(a[1])))
	})
	reg("Iff", func(fr *frame, a []value) value {
		p := fr.i.p
		return normBool(p.ctx.Eq(p.boolTerm(a[0]), p.boolTerm(a[1])))
	})
	reg("Not", func(fr *frame, a []value) value {
		p := fr.i.p
		return normBool(p.ctx.Not(p.boolTerm(a[0])))
	})
	reg("Ite", func(fr *frame, a []value) value {
		// Ite(c, x, y *big.Int) *big.Int without forking
		p := fr.i.p
		return p.newBig(p.ctx.Ite(p.boolTerm(a[0]), p.bigTerm(fr, a[1]), p.bigTerm(fr, a[2])))
	})
	reg("Symbolic", func(fr *frame, a []value) value { return true })
	reg("Note", func(fr *frame, a []value) value {
		fr.i.p.note("%s", a[0].(string))
		return nil
	})
	// EqBytes(a, b []byte) bool without forking (equal lengths required to be concrete)
	reg("EqBytes", func(fr *frame, a []value) value {
		p := fr.i.p
		if ax, ok := a[0].(*absBytes); ok {
			if ay, ok := a[1].(*absBytes); ok {
				// minimal big-endian encodings are equal iff the integers are
				c := p.ctx
				eq := c.Eq(ax.t, ay.t)
				// two RFC 8032 point encodings: equal iff the points are (the encoding is injective)
				g1, ok1 := p.encTab[c.Int2BV(256, ax.t)]
				g2, ok2 := p.encTab[c.Int2BV(256, ay.t)]
				if ok1 && ok2 {
					p.axiom("point-encoding-injective", c.Eq(eq, c.And(p.smartEq(g1.d, g2.d), c.Eq(g1.tau, g2.tau))))
				}
				return normBool(eq)
			}
		}
		x, y := p.flatBytes(fr, a[0]), p.flatBytes(fr, a[1])
		if len(x) != len(y) {
			return false
		}
		var ts []*smt.Term
		for i := range x {
			ts = append(ts, p.ctx.Eq(p.bvOf(x[i]), p.bvOf(y[i])))
		}
		return normBool(p.ctx.And(ts...))
	})
	// EqInt(a, b *big.Int) bool
	reg("EqInt", func(fr *frame, a []value) value {
		p := fr.i.p
		return normBool(p.ctx.Eq(p.bigTerm(fr, a[0]), p.bigTerm(fr, a[1])))
	})
	reg("LtInt", func(fr *frame, a []value) value {
		p := fr.i.p
		return normBool(p.ctx.Lt(p.bigTerm(fr, a[0]), p.bigTerm(fr, a[1])))
	})
	reg("LeInt", func(fr *frame, a []value) value {
		p := fr.i.p
		return normBool(p.ctx.Le(p.bigTerm(fr, a[0]), p.bigTerm(fr, a[1])))
	})
	// CongMod(a, b, m): a ≡ b (mod m) with the fraction lemma applied
	reg("CongMod", func(fr *frame, a []value) value {
		p := fr.i.p
		x, y := p.bigTerm(fr, a[0]), p.bigTerm(fr, a[1])
		// two coordinates compared (r = R.x mod q against the recomputed point): instantiate the
		// coordinate injectivity lemmas for that pair
		strip := func(t *smt.Term) *smt.Term {
			for t.Op == "mod" && t.Args[0].Op == "app" {
				t = t.Args[0]
			}
			return t
		}
		if sx, sy := strip(x), strip(y); sx.Op == "app" && sy.Op == "app" {
			p.pointEqLemma(sx, sy)
		} else if os.Getenv("GOSYM_TRACE_HASH") != "" {
			p.note("CongMod: no coordinate lemma for %.60s / %.60s", sx.String(), sy.String())
		}
		return normBool(p.congruent(x, y, p.bigTerm(fr, a[2])))
	})
	reg("InRange", func(fr *frame, a []value) value {
		// InRange(x, lo, hi): lo <= x < hi
		p := fr.i.p
		x := p.bigTerm(fr, a[0])
		return normBool(p.ctx.And(p.ctx.Le(p.bigTerm(fr, a[1]), x), p.ctx.Lt(x, p.bigTerm(fr, a[2]))))
	})
}

// nondetVar returns the variable for a named nondeterministic input.
func (p *pathRun) nondetVar(name string, s smt.Sort) *smt.Term {
	if p.ndSeen[name] {
		// a second request for the same name gets a distinct variable (loop reuse)
		p.counters["nd:"+name]++
		name = fmt.Sprintf("%s#%d", name, p.counters["nd:"+name])
	}
	p.ndSeen[name] = true
	v := p.ctx.Var(name, s)
	p.nondets = append(p.nondets, nondetRec{name, v})
	return v
}

// concretize forks a symbolic integer into its feasible concrete values.
func (p *pathRun) concretize(fr *frame, s symInt, what string) int64 {
	c := p.ctx
	w := kindWidth(s.k)
	if s.t.Op == "app" && s.t.Name == "bytelen" {
		// byte length of an integer: case split by its definition, longest first
		t := s.t.Args[0]
		max := 80
		if b := p.fitsTab[t]; b != nil {
			max = (b.BitLen() + 6) / 8
		} else if t.Op == "bv2nat" {
			max = t.Args[0].Sort.W / 8
		} else if t.Op == "mod" && t.Args[1].IsConst() {
			max = (t.Args[1].Val.BitLen() + 7) / 8
		} else if t.Op == "app" && len(t.Name) > 2 && (t.Name[:2] == "X_" || t.Name[:2] == "Y_") {
			max = 32 // a coordinate: below the 256-bit field prime
		}
		for n := max; n >= 0; n-- {
			var cond *smt.Term
			if n == 0 {
				cond = c.Eq(t, c.IntC64(0))
			} else {
				cond = c.And(c.Ge(t, c.IntC(pow2(uint(8*(n-1))))), c.Lt(t, c.IntC(pow2(uint(8*n)))))
			}
			if p.fork(cond, "byte length case split") {
				return int64(n)
			}
		}
		panic(unsupported("byte length beyond the case-split bound for " + what))
	}
	for tries := 0; tries < 4096; tries++ {
		var val *big.Int
		r, m, _ := p.queryFor(s.t)
		if r != smt.Sat || m == nil {
			if r == smt.Unsat {
				p.finish("pruned", "concretize: infeasible")
			}
			panic(unsupported("cannot concretise symbolic " + what))
		}
		val = m
		if s.t.Sort.K == smt.KInt {
			if p.fork(c.Eq(s.t, c.IntC(val)), "concretize "+what) {
				return val.Int64()
			}
			continue
		}
		eq := c.Eq(s.t, c.BVC(w, val))
		if p.fork(eq, "concretize "+what) {
			if kindSigned(s.k) && val.Bit(w-1) == 1 {
				return new(big.Int).Sub(val, new(big.Int).Lsh(big.NewInt(1), uint(w))).Int64()
			}
			return int64(val.Uint64())
		}
	}
	panic(unsupported("too many values while concretising " + what))
}

// queryFor asks for one feasible value of term t under the path condition.
// Deterministic given the same pc text (needed for re-execution).
func (p *pathRun) queryFor(t *smt.Term) (smt.Result, *big.Int, string) {
	name := fmt.Sprintf("cz!%d", p.counters["cz"])
	p.counters["cz"]++
	v := p.ctx.Var(name, t.Sort)
	as := append(append([]*smt.Term{}, p.pc...), p.ctx.Eq(v, t))
	script := p.ctx.Script(as)
	key := script
	if cached, ok := p.eng.czCache.Load(key); ok {
		cv := cached.(*big.Int)
		if cv == nil {
			return smt.Unsat, nil, ""
		}
		return smt.Sat, cv, ""
	}
	p.res.Queries++
	r, m, d := p.solver.Check(script, p.eng.FeasMs, []string{name})
	if r == smt.Sat {
		if mv, ok := m[name]; ok {
			p.eng.czCache.Store(key, mv)
			return r, mv, d
		}
		return smt.Unknown, nil, "no model value"
	}
	if r == smt.Unsat {
		p.eng.czCache.Store(key, (*big.Int)(nil))
	}
	return r, nil, d
}

func isBigInt(t types.Type) bool {
	n, ok := t.(*types.Named)
	if !ok {
		return false
	}
	o := n.Obj()
	return o.Pkg() != nil && o.Pkg().Path() == "math/big" && o.Name() == "Int"
}

func typeString(t types.Type) string {
	return strings.TrimPrefix(t.String(), "*")
}
