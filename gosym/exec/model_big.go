package exec

// Intrinsic model of math/big.Int: one mathematical integer per object
// (concrete *big.Int when known, else an SMT Int term).

import (
	"fmt"
	"go/types"
	"math/big"

	"gosym/smt"
)

var bigZeroC = new(big.Int)

func (p *pathRun) bt(b bigval) *smt.Term {
	if b.t != nil {
		return b.t
	}
	return p.ctx.IntC(b.c)
}

func (p *pathRun) mkBig(t *smt.Term) bigval {
	if t.IsConst() {
		return bigval{c: new(big.Int).Set(t.Val)}
	}
	return bigval{t: t}
}

// newBig allocates a fresh *big.Int object holding t.
func (p *pathRun) newBig(t *smt.Term) *value {
	var v value = p.mkBig(t)
	return &v
}

func newBigC(c *big.Int) *value {
	if c == nil {
		return nil
	}
	var v value = bigval{c: new(big.Int).Set(c)}
	return &v
}

// bigAt reads the bigval a *big.Int points to; nil pointer is a target panic.
func (p *pathRun) bigAt(fr *frame, v value) bigval {
	ptr := v.(*value)
	if ptr == nil {
		fr.nilDeref("nil *big.Int")
	}
	b, ok := (*ptr).(bigval)
	if !ok {
		panic(fmt.Sprintf("bigAt: pointee is %T", *ptr))
	}
	return b
}

func (p *pathRun) bigTerm(fr *frame, v value) *smt.Term { return p.bt(p.bigAt(fr, v)) }

func (p *pathRun) setBig(fr *frame, recv value, b bigval) value {
	ptr := recv.(*value)
	if ptr == nil {
		fr.nilDeref("nil *big.Int receiver")
	}
	*ptr = b
	return recv
}

// cmpInt3 returns -1/0/1 as a Go int value (symbolic ite when needed).
func (p *pathRun) cmp3(a, b *smt.Term) value {
	c := p.ctx
	p.pointEqLemma(a, b)
	lt := c.Lt(a, b)
	eq := p.smartEq(a, b)
	if lt.IsConst() && eq.IsConst() {
		switch {
		case lt.IsTrue():
			return int(-1)
		case eq.IsTrue():
			return int(0)
		}
		return int(1)
	}
	m1 := c.BVC(64, big.NewInt(-1))
	t := c.Ite(lt, m1, c.Ite(eq, c.BVC64(64, 0), c.BVC64(64, 1)))
	return symInt{types.Int, t}
}

func pow2(n uint) *big.Int { return new(big.Int).Lsh(big.NewInt(1), n) }

func init() {
	B := func(name string, f externalFn) { intrinsics["(*math/big.Int)."+name] = f }
	type bin func(c *smt.Ctx, x, y *smt.Term) *smt.Term
	arith := func(name string, nat func(z, x, y *big.Int) *big.Int, sym bin) {
		B(name, func(fr *frame, a []value) value {
			p := fr.i.p
			x, y := p.bigAt(fr, a[1]), p.bigAt(fr, a[2])
			if x.c != nil && y.c != nil {
				return p.setBig(fr, a[0], bigval{c: nat(new(big.Int), x.c, y.c)})
			}
			return p.setBig(fr, a[0], p.mkBig(sym(p.ctx, p.bt(x), p.bt(y))))
		})
	}
	arith("Add", (*big.Int).Add, func(c *smt.Ctx, x, y *smt.Term) *smt.Term { return c.Add(x, y) })
	arith("Sub", (*big.Int).Sub, func(c *smt.Ctx, x, y *smt.Term) *smt.Term { return c.Sub(x, y) })
	arith("Mul", (*big.Int).Mul, func(c *smt.Ctx, x, y *smt.Term) *smt.Term { return c.Mul(x, y) })

	// division family: y == 0 panics
	divlike := func(name string, nat func(z, x, y *big.Int) *big.Int, sym bin) {
		B(name, func(fr *frame, a []value) value {
			p := fr.i.p
			x, y := p.bigAt(fr, a[1]), p.bigAt(fr, a[2])
			if y.c != nil {
				if y.c.Sign() == 0 {
					p.targetPanic(fr.caller, "division by zero")
				}
			} else if p.fork(p.ctx.Eq(y.t, p.ctx.IntC64(0)), "big division by zero") {
				p.targetPanic(fr.caller, "division by zero")
			}
			if x.c != nil && y.c != nil {
				return p.setBig(fr, a[0], bigval{c: nat(new(big.Int), x.c, y.c)})
			}
			return p.setBig(fr, a[0], p.mkBig(sym(p.ctx, p.bt(x), p.bt(y))))
		})
	}
	B("Mod", func(fr *frame, a []value) value {
		p := fr.i.p
		x, y := p.bigAt(fr, a[1]), p.bigAt(fr, a[2])
		if y.c != nil {
			if y.c.Sign() == 0 {
				p.targetPanic(fr.caller, "division by zero")
			}
		} else if p.fork(p.ctx.Eq(y.t, p.ctx.IntC64(0)), "big division by zero") {
			p.targetPanic(fr.caller, "division by zero")
		}
		if x.c != nil && y.c != nil {
			return p.setBig(fr, a[0], bigval{c: new(big.Int).Mod(x.c, y.c)})
		}
		if y.c != nil && y.c.BitLen() >= 128 && p.eng.knownPrime(y.c) {
			// residues modulo a curve order are kept in polynomial normal form
			return p.setBig(fr, a[0], p.mkBig(p.canonMod(p.bt(x), p.bt(y))))
		}
		return p.setBig(fr, a[0], p.mkBig(p.ctx.Mod(p.bt(x), p.bt(y))))
	})
	divlike("Div", (*big.Int).Div, func(c *smt.Ctx, x, y *smt.Term) *smt.Term { return c.Div(x, y) })
	truncQuo := func(c *smt.Ctx, x, y *smt.Term) *smt.Term {
		q := c.Div(c.Abs(x), c.Abs(y))
		neg := c.Not(c.Eq(c.Lt(x, c.IntC64(0)), c.Lt(y, c.IntC64(0))))
		return c.Ite(neg, c.Neg(q), q)
	}
	divlike("Quo", (*big.Int).Quo, truncQuo)
	divlike("Rem", (*big.Int).Rem, func(c *smt.Ctx, x, y *smt.Term) *smt.Term {
		return c.Sub(x, c.Mul(y, truncQuo(c, x, y)))
	})
	B("DivMod", func(fr *frame, a []value) value {
		p := fr.i.p
		x, y := p.bigAt(fr, a[1]), p.bigAt(fr, a[2])
		if y.c != nil && y.c.Sign() == 0 || y.c == nil && p.fork(p.ctx.Eq(y.t, p.ctx.IntC64(0)), "big division by zero") {
			p.targetPanic(fr.caller, "division by zero")
		}
		xt, yt := p.bt(x), p.bt(y)
		p.setBig(fr, a[3], p.mkBig(p.ctx.Mod(xt, yt)))
		p.setBig(fr, a[0], p.mkBig(p.ctx.Div(xt, yt)))
		return tuple{a[0], a[3]}
	})
	B("QuoRem", func(fr *frame, a []value) value {
		p := fr.i.p
		x, y := p.bigAt(fr, a[1]), p.bigAt(fr, a[2])
		if y.c != nil && y.c.Sign() == 0 || y.c == nil && p.fork(p.ctx.Eq(y.t, p.ctx.IntC64(0)), "big division by zero") {
			p.targetPanic(fr.caller, "division by zero")
		}
		xt, yt := p.bt(x), p.bt(y)
		q := truncQuo(p.ctx, xt, yt)
		p.setBig(fr, a[3], p.mkBig(p.ctx.Sub(xt, p.ctx.Mul(yt, q))))
		p.setBig(fr, a[0], p.mkBig(q))
		return tuple{a[0], a[3]}
	})
	B("Neg", func(fr *frame, a []value) value {
		p := fr.i.p
		return p.setBig(fr, a[0], p.mkBig(p.ctx.Neg(p.bigTerm(fr, a[1]))))
	})
	B("Abs", func(fr *frame, a []value) value {
		p := fr.i.p
		return p.setBig(fr, a[0], p.mkBig(p.absTerm(p.bigTerm(fr, a[1]))))
	})
	B("Set", func(fr *frame, a []value) value {
		p := fr.i.p
		return p.setBig(fr, a[0], p.bigAt(fr, a[1]))
	})
	B("SetInt64", func(fr *frame, a []value) value {
		p := fr.i.p
		if s, ok := a[1].(symInt); ok {
			return p.setBig(fr, a[0], p.mkBig(p.ctx.BV2IntSigned(s.t)))
		}
		return p.setBig(fr, a[0], bigval{c: big.NewInt(asInt64(a[1]))})
	})
	B("SetUint64", func(fr *frame, a []value) value {
		p := fr.i.p
		if s, ok := a[1].(symInt); ok {
			return p.setBig(fr, a[0], p.mkBig(p.ctx.BV2Nat(s.t)))
		}
		return p.setBig(fr, a[0], bigval{c: new(big.Int).SetUint64(uint64(asInt64(a[1])))})
	})
	intrinsics["math/big.NewInt"] = func(fr *frame, a []value) value {
		p := fr.i.p
		if s, ok := a[0].(symInt); ok {
			return p.newBig(p.ctx.BV2IntSigned(s.t))
		}
		return newBigC(big.NewInt(asInt64(a[0])))
	}
	B("Cmp", func(fr *frame, a []value) value {
		p := fr.i.p
		x, y := p.bigAt(fr, a[0]), p.bigAt(fr, a[1])
		if x.c != nil && y.c != nil {
			return x.c.Cmp(y.c)
		}
		return p.cmp3(p.bt(x), p.bt(y))
	})
	B("CmpAbs", func(fr *frame, a []value) value {
		p := fr.i.p
		return p.cmp3(p.ctx.Abs(p.bigTerm(fr, a[0])), p.ctx.Abs(p.bigTerm(fr, a[1])))
	})
	B("Sign", func(fr *frame, a []value) value {
		p := fr.i.p
		return p.cmp3(p.bigTerm(fr, a[0]), p.ctx.IntC64(0))
	})
	B("IsInt64", func(fr *frame, a []value) value {
		p := fr.i.p
		x := p.bigTerm(fr, a[0])
		lo := new(big.Int).Neg(pow2(63))
		return normBool(p.ctx.And(p.ctx.Ge(x, p.ctx.IntC(lo)), p.ctx.Lt(x, p.ctx.IntC(pow2(63)))))
	})
	B("IsUint64", func(fr *frame, a []value) value {
		p := fr.i.p
		x := p.bigTerm(fr, a[0])
		return normBool(p.ctx.And(p.ctx.Ge(x, p.ctx.IntC64(0)), p.ctx.Lt(x, p.ctx.IntC(pow2(64)))))
	})
	B("Int64", func(fr *frame, a []value) value {
		p := fr.i.p
		x := p.bigAt(fr, a[0])
		if x.c != nil {
			return x.c.Int64()
		}
		return symInt{types.Int64, p.lowBits(x.t, 64)}
	})
	B("Uint64", func(fr *frame, a []value) value {
		p := fr.i.p
		x := p.bigAt(fr, a[0])
		if x.c != nil {
			return x.c.Uint64()
		}
		// Go: low 64 bits of |x|
		return symInt{types.Uint64, p.lowBits(p.ctx.Abs(x.t), 64)}
	})
	B("Lsh", func(fr *frame, a []value) value {
		p := fr.i.p
		n := uint(fr.concInt(a[2], "Lsh count"))
		return p.setBig(fr, a[0], p.mkBig(p.ctx.Mul(p.bigTerm(fr, a[1]), p.ctx.IntC(pow2(n)))))
	})
	B("Rsh", func(fr *frame, a []value) value {
		p := fr.i.p
		n := uint(fr.concInt(a[2], "Rsh count"))
		return p.setBig(fr, a[0], p.mkBig(p.ctx.Div(p.bigTerm(fr, a[1]), p.ctx.IntC(pow2(n)))))
	})
	B("Bit", func(fr *frame, a []value) value {
		p := fr.i.p
		i := fr.concInt(a[1], "Bit index")
		if i < 0 {
			p.targetPanic(fr.caller, "negative bit index")
		}
		x := p.bigAt(fr, a[0])
		if x.c != nil {
			return x.c.Bit(int(i))
		}
		c := p.ctx
		var isOne *smt.Term
		if i <= 8 {
			isOne = c.Eq(c.Mod(c.Div(x.t, c.IntC(pow2(uint(i)))), c.IntC64(2)), c.IntC64(1))
		} else {
			// high bits of a symbolic integer: an uninterpreted predicate of the value (a
			// function of x, not tied numerically to it: an over-approximation that keeps
			// `div 2^i` by huge constants out of the queries)
			isOne = c.App(fmt.Sprintf("bit_%d", i), smt.Bool, x.t)
			p.res.Lemmas["bit-abstraction"]++
		}
		return symInt{types.Uint, c.Ite(isOne, c.BVC64(64, 1), c.BVC64(64, 0))}
	})
	B("SetBit", func(fr *frame, a []value) value {
		p := fr.i.p
		i := fr.concInt(a[2], "SetBit index")
		if i < 0 {
			p.targetPanic(fr.caller, "negative bit index")
		}
		x := p.bigAt(fr, a[1])
		if x.c != nil {
			if bb, ok := a[3].(uint); ok {
				return p.setBig(fr, a[0], bigval{c: new(big.Int).SetBit(x.c, int(i), bb)})
			}
		}
		c := p.ctx
		xt := p.bt(x)
		w := c.IntC(pow2(uint(i)))
		cur := c.Mod(c.Div(xt, w), c.IntC64(2))
		var nb *smt.Term
		if s, ok := a[3].(symInt); ok {
			nb = c.BV2Nat(s.t)
		} else {
			nb = c.IntC64(asInt64(a[3]))
		}
		return p.setBig(fr, a[0], p.mkBig(c.Add(xt, c.Mul(c.Sub(nb, cur), w))))
	})
	B("Sqrt", func(fr *frame, a []value) value {
		p := fr.i.p
		x := p.bigAt(fr, a[1])
		if x.c != nil {
			if x.c.Sign() < 0 {
				p.targetPanic(fr.caller, "square root of negative number")
			}
			return p.setBig(fr, a[0], bigval{c: new(big.Int).Sqrt(x.c)})
		}
		c := p.ctx
		if p.fork(c.Lt(x.t, c.IntC64(0)), "sqrt negative") {
			p.targetPanic(fr.caller, "square root of negative number")
		}
		r := c.Fresh("sqrt", smt.Int)
		p.axiom("sqrt-def", c.And(c.Ge(r, c.IntC64(0)), c.Le(c.Mul(r, r), x.t), c.Lt(x.t, c.Mul(c.Add(r, c.IntC64(1)), c.Add(r, c.IntC64(1))))))
		return p.setBig(fr, a[0], bigval{t: r})
	})
	B("String", func(fr *frame, a []value) value {
		p := fr.i.p
		ptr := a[0].(*value)
		if ptr == nil {
			return "<nil>"
		}
		x := p.bigAt(fr, a[0])
		if x.c != nil {
			return x.c.String()
		}
		return symStr{"dec", x.t}
	})
	B("Text", func(fr *frame, a []value) value {
		p := fr.i.p
		x := p.bigAt(fr, a[0])
		base := int(fr.concInt(a[1], "Text base"))
		if x.c != nil {
			return x.c.Text(base)
		}
		return symStr{fmt.Sprintf("text%d", base), x.t}
	})
	B("ProbablyPrime", func(fr *frame, a []value) value {
		p := fr.i.p
		x := p.bigAt(fr, a[0])
		if x.c != nil {
			return x.c.ProbablyPrime(int(fr.concInt(a[1], "ProbablyPrime n")))
		}
		return normBool(p.ctx.App("isprime", smt.Bool, x.t))
	})
	B("BitLen", func(fr *frame, a []value) value {
		p := fr.i.p
		x := p.bigAt(fr, a[0])
		if x.c != nil {
			return x.c.BitLen()
		}
		return p.bitLen(x.t)
	})
	B("GCD", func(fr *frame, a []value) value {
		// z.GCD(x, y, a, b): only the x == y == nil form is modelled symbolically
		p := fr.i.p
		av, bv := p.bigAt(fr, a[3]), p.bigAt(fr, a[4])
		xp, yp := a[1].(*value), a[2].(*value)
		if av.c != nil && bv.c != nil {
			var X, Y *big.Int
			if xp != nil {
				X = new(big.Int)
			}
			if yp != nil {
				Y = new(big.Int)
			}
			g := new(big.Int).GCD(X, Y, av.c, bv.c)
			if xp != nil {
				*xp = bigval{c: X}
			}
			if yp != nil {
				*yp = bigval{c: Y}
			}
			return p.setBig(fr, a[0], bigval{c: g})
		}
		if xp != nil || yp != nil {
			panic(unsupported("symbolic extended GCD"))
		}
		return p.setBig(fr, a[0], p.mkBig(p.gcdTerm(p.bt(av), p.bt(bv))))
	})
	B("ModInverse", func(fr *frame, a []value) value {
		p := fr.i.p
		g, n := p.bigAt(fr, a[1]), p.bigAt(fr, a[2])
		if g.c != nil && n.c != nil {
			if n.c.Sign() == 0 {
				p.targetPanic(fr.caller, "division by zero")
			}
			r := new(big.Int).ModInverse(g.c, n.c)
			if r == nil {
				return (*value)(nil)
			}
			return p.setBig(fr, a[0], bigval{c: r})
		}
		return p.modInverse(fr, a[0], p.bt(g), p.bt(n))
	})
	B("Exp", func(fr *frame, a []value) value {
		p := fr.i.p
		x, y := p.bigAt(fr, a[1]), p.bigAt(fr, a[2])
		var m bigval
		mNil := a[3].(*value) == nil
		if !mNil {
			m = p.bigAt(fr, a[3])
		} else {
			m = bigval{c: bigZeroC}
		}
		if x.c != nil && y.c != nil && m.c != nil {
			var mm *big.Int
			if !mNil {
				mm = m.c
			}
			if mm != nil && mm.Sign() != 0 || y.c.BitLen() < 20 {
				r := new(big.Int).Exp(x.c, y.c, mm)
				if r == nil {
					return (*value)(nil)
				}
				return p.setBig(fr, a[0], bigval{c: r})
			}
		}
		return p.bigExp(fr, a[0], x, y, m)
	})
	intrinsics["math/big.Jacobi"] = func(fr *frame, a []value) value {
		p := fr.i.p
		x, y := p.bigAt(fr, a[0]), p.bigAt(fr, a[1])
		if y.c != nil {
			if y.c.Bit(0) == 0 {
				p.targetPanic(fr.caller, "big: invalid 2nd argument to Int.Jacobi: need odd integer")
			}
		} else {
			c := p.ctx
			if p.fork(c.Eq(c.Mod(y.t, c.IntC64(2)), c.IntC64(0)), "Jacobi even") {
				p.targetPanic(fr.caller, "big: invalid 2nd argument to Int.Jacobi: need odd integer")
			}
		}
		if x.c != nil && y.c != nil {
			return big.Jacobi(x.c, y.c)
		}
		c := p.ctx
		j := c.App("jacobi", smt.Int, p.bt(x), p.bt(y))
		p.axiom("jacobi-range", c.And(c.Ge(j, c.IntC64(-1)), c.Le(j, c.IntC64(1))))
		return symInt{types.Int, c.Ite(c.Eq(j, c.IntC64(-1)), c.BVC(64, big.NewInt(-1)), c.Ite(c.Eq(j, c.IntC64(0)), c.BVC64(64, 0), c.BVC64(64, 1)))}
	}
	B("Bytes", func(fr *frame, a []value) value {
		p := fr.i.p
		return p.bigBytes(fr, p.bigAt(fr, a[0]))
	})
	B("SetBytes", func(fr *frame, a []value) value {
		p := fr.i.p
		return p.setBig(fr, a[0], p.fromBytes(fr, a[1]))
	})
	B("FillBytes", func(fr *frame, a []value) value {
		p := fr.i.p
		x := p.bigAt(fr, a[0])
		buf := a[1].([]value)
		n := len(buf)
		c := p.ctx
		ax := p.absTerm(p.bt(x))
		lim := c.IntC(pow2(uint(8 * n)))
		if p.fork(c.Ge(ax, lim), "FillBytes fit") {
			p.targetPanic(fr.caller, "math/big: buffer too small to fit value")
		}
		p.noteFits(ax, pow2(uint(8*n)))
		if x.c != nil {
			bs := new(big.Int).Abs(x.c).FillBytes(make([]byte, n))
			for i := range buf {
				buf[i] = bs[i]
			}
			return a[1]
		}
		bits := p.lowBits(ax, 8*n)
		for i := 0; i < n; i++ {
			hi := 8*(n-i) - 1
			buf[i] = normInt(types.Uint8, c.Extract(hi, hi-7, bits))
		}
		return a[1]
	})
}

// lowBits returns the low w bits of an Int term as a bit-vector. If the term is
// bv2nat of a bit-vector the structure is reused.
func (p *pathRun) lowBits(t *smt.Term, w int) *smt.Term {
	c := p.ctx
	if t.Op == "bv2nat" {
		b := t.Args[0]
		if b.Sort.W == w {
			return b
		}
		if b.Sort.W > w {
			return c.Extract(w-1, 0, b)
		}
		return c.ZeroExt(w-b.Sort.W, b)
	}
	return c.Int2BV(w, t)
}

// bitLen models BitLen for a symbolic value with an uninterpreted function and
// threshold axioms for the bit lengths that matter in tss-lib.
func (p *pathRun) bitLen(t *smt.Term) value {
	c := p.ctx
	ax := c.Abs(t)
	bl := c.App("bitlen", smt.Int, ax)
	var as []*smt.Term
	as = append(as, c.Ge(bl, c.IntC64(0)), c.Eq(c.Eq(bl, c.IntC64(0)), c.Eq(ax, c.IntC64(0))))
	for _, k := range bitLenThresholds {
		// bitlen(x) >= k  <=>  |x| >= 2^(k-1)
		as = append(as, c.Eq(c.Ge(bl, c.IntC64(int64(k))), c.Ge(ax, c.IntC(pow2(uint(k-1))))))
	}
	p.axiom("bitlen-thresholds", c.And(as...))
	v := c.Fresh("bitlen", smt.BV(64))
	p.axiom("bitlen-int", c.And(c.Eq(c.BV2Nat(v), bl), c.BVCmp("bvult", v, c.BVC64(64, 1<<40))))
	p.bitLens = append(p.bitLens, [2]*smt.Term{ax, bl})
	return symInt{types.Int, v}
}

var bitLenThresholds = []int{1, 2, 8, 80, 81, 82, 128, 254, 255, 256, 257, 512, 1023, 1024, 1025, 2046, 2047, 2048, 2049, 4096, 4097, 5000, 5001}

func (p *pathRun) gcdTerm(a, b *smt.Term) *smt.Term {
	c := p.ctx
	g := c.App("gcd", smt.Int, a, b)
	p.axiom("gcd-basic", c.And(
		c.Ge(g, c.IntC64(0)),
		c.Implies(c.Not(c.And(c.Eq(a, c.IntC64(0)), c.Eq(b, c.IntC64(0)))), c.Ge(g, c.IntC64(1))),
		c.Implies(c.Eq(a, c.IntC64(0)), c.Eq(g, c.Abs(b))),
		c.Implies(c.Eq(b, c.IntC64(0)), c.Eq(g, c.Abs(a))),
		c.Implies(c.Eq(c.Abs(a), c.IntC64(1)), c.Eq(g, c.IntC64(1))),
		c.Implies(c.Eq(c.Abs(b), c.IntC64(1)), c.Eq(g, c.IntC64(1))),
		c.Implies(c.Not(c.Eq(a, c.IntC64(0))), c.Le(g, c.Abs(a))),
		c.Implies(c.Not(c.Eq(b, c.IntC64(0))), c.Le(g, c.Abs(b))),
	))
	// for a numeral prime b: gcd(a,b)=1 <=> b does not divide a
	for _, pr := range []struct{ x, y *smt.Term }{{a, b}, {b, a}} {
		if pr.y.IsConst() && p.eng.knownPrime(pr.y.Val) {
			p.axiom("gcd-prime", c.Eq(c.Eq(g, c.IntC64(1)), c.Not(c.Eq(c.Mod(pr.x, pr.y), c.IntC64(0)))))
			p.axiom("gcd-prime", c.Or(c.Eq(g, c.IntC64(1)), c.Eq(g, pr.y)))
		} else if pr.y.IsConst() && pr.y.Val.Sign() > 0 && pr.y.Val.BitLen() <= 32 {
			// a small composite numeral (toy moduli): coprime iff no prime factor divides x
			n := pr.y.Val.Int64()
			var noFactor []*smt.Term
			for f := int64(2); f*f <= n; f++ {
				if n%f == 0 {
					noFactor = append(noFactor, c.Not(c.Eq(c.Mod(pr.x, c.IntC64(f)), c.IntC64(0))))
					for n%f == 0 {
						n /= f
					}
				}
			}
			if n > 1 {
				noFactor = append(noFactor, c.Not(c.Eq(c.Mod(pr.x, c.IntC64(n)), c.IntC64(0))))
			}
			p.axiom("gcd-small-composite", c.Eq(c.Eq(g, c.IntC64(1)), c.And(noFactor...)))
		}
	}
	return g
}

// modInverse: nil iff gcd(g,n) != 1; otherwise a fresh inverse registered for
// the fraction lemma.
func (p *pathRun) modInverse(fr *frame, recv value, g, n *smt.Term) value {
	c := p.ctx
	if p.fork(c.Eq(n, c.IntC64(0)), "ModInverse zero modulus") {
		p.targetPanic(fr.caller, "division by zero")
	}
	gc := p.gcdTerm(g, n)
	if p.genericCoins(c.Not(c.Eq(gc, c.IntC64(1))), "inverted-value-is-a-unit") {
		// all-honest run: a non-invertible value is a coin event (excluded, counted)
	} else if !p.fork(c.Eq(gc, c.IntC64(1)), "ModInverse coprime") {
		return (*value)(nil)
	}
	an := c.Abs(n)
	// the inverse in [0,|n|) is unique: the same value (as a canonical residue) inverted twice -
	// e.g. by two parties computing delta^-1 - is the same variable, not two to be proved equal
	if n.IsConst() && n.Val.Sign() > 0 {
		key := fmt.Sprintf("inv:%d:%d", p.canonMod(g, n).ID, n.ID)
		if prev, ok := p.ghost[key]; ok {
			return p.setBig(fr, recv, bigval{t: prev.(*smt.Term)})
		}
		inv := c.Fresh("inv", smt.Int)
		p.ghost[key] = inv
		p.markNonNeg(inv)
		p.axiom("inverse-def", c.And(c.Ge(inv, c.IntC64(0)), c.Lt(inv, an), c.Eq(c.Mod(c.Mul(g, inv), an), c.Mod(c.IntC64(1), an))))
		p.registerInverse(inv, g, an)
		return p.setBig(fr, recv, bigval{t: inv})
	}
	inv := c.Fresh("inv", smt.Int)
	p.markNonNeg(inv)
	p.axiom("inverse-def", c.And(c.Ge(inv, c.IntC64(0)), c.Lt(inv, an), c.Eq(c.Mod(c.Mul(g, inv), an), c.Mod(c.IntC64(1), an))))
	p.registerInverse(inv, g, an)
	return p.setBig(fr, recv, bigval{t: inv})
}
