package exec

// Deterministic cooperative scheduler for interpreted goroutines, plus the
// channel and sync models. Exactly one interpreted goroutine runs at a time;
// control moves only when the running one blocks or ends (parent first after
// `go`, then FIFO). This fixes ONE interleaving: it makes round code
// executable and is not a claim about schedules.

import (
	"fmt"
	"sync"

	"gosym/smt"
)

type goroutine struct {
	id    int
	wake  chan struct{}
	ready func() bool // nil when running
	done  bool
	what  string
	fresh bool // runnable without having blocked on a condition (new or yielded)
	vc    vclock
}

type scheduler struct {
	p       *pathRun
	gs      []*goroutine
	cur     *goroutine
	aborted bool
	wg      sync.WaitGroup
	main    *goroutine
}

func newScheduler(p *pathRun) *scheduler {
	s := &scheduler{p: p}
	g := &goroutine{id: 0, wake: make(chan struct{}, 1), vc: vclock{1}}
	s.gs = []*goroutine{g}
	s.cur = g
	s.main = g
	return s
}

func always() bool { return true }

// spawn registers a new goroutine running fn; the caller keeps running.
func (s *scheduler) spawn(fn func()) {
	g := &goroutine{id: len(s.gs), wake: make(chan struct{}, 1), ready: always, fresh: true}
	// the go statement happens before the new goroutine's execution begins
	g.vc = s.cur.vc.copy().tick(g.id)
	s.cur.vc = s.cur.vc.tick(s.cur.id)
	s.gs = append(s.gs, g)
	s.wg.Add(1)
	go func() {
		defer s.wg.Done()
		<-g.wake
		if s.aborted {
			return
		}
		defer func() {
			r := recover()
			g.done = true
			if r != nil {
				if _, ok := r.(pathAbort); !ok {
					// record and abort the path from this goroutine
					s.p.recordCrash(r)
				}
				// hand control back to main so it can unwind
				s.aborted = true
				if g != s.main {
					select {
					case s.main.wake <- struct{}{}:
					default: // main is already unwinding (shutdown)
					}
				}
				return
			}
			s.exit(g)
		}()
		fn()
	}()
}

func (s *scheduler) pick(from *goroutine) *goroutine {
	n := len(s.gs)
	start := 0
	for i, g := range s.gs {
		if g == from {
			start = i
		}
	}
	// first a goroutine that was blocked and whose condition now holds (a consumer
	// picks up what was just produced: keeps early-exit loops linear), then
	// goroutines that have not run yet / yielded, in spawn order
	for k := 1; k <= n; k++ {
		g := s.gs[(start+k)%n]
		if !g.done && g.ready != nil && !g.fresh && g.ready() {
			return g
		}
	}
	for k := 1; k <= n; k++ {
		g := s.gs[(start+k)%n]
		if !g.done && g.ready != nil && g.ready() {
			return g
		}
	}
	return nil
}

// block parks the current goroutine until ready() holds.
func (s *scheduler) block(ready func() bool, what string) {
	cur := s.cur
	if ready() {
		return
	}
	cur.ready = ready
	cur.fresh = false
	cur.what = what
	next := s.pick(cur)
	if next == nil {
		cur.ready = nil
		s.p.raise(nil, "hang", "all goroutines are blocked: "+s.describe())
	}
	if next == cur {
		cur.ready = nil
		return
	}
	s.cur = next
	next.ready = nil
	next.wake <- struct{}{}
	<-cur.wake
	if s.aborted {
		panic(pathAbort{})
	}
	// woken: we were picked, so ready() held
	cur.ready = nil
}

// yield lets other runnable goroutines run (used by drain at the end of a path).
func (s *scheduler) yield() bool {
	cur := s.cur
	cur.ready = always
	cur.fresh = true
	next := s.pick(cur)
	if next == nil || next == cur {
		cur.ready = nil
		return false
	}
	s.cur = next
	next.ready = nil
	next.wake <- struct{}{}
	<-cur.wake
	if s.aborted {
		panic(pathAbort{})
	}
	cur.ready = nil
	return true
}

// exit: goroutine g ended normally; pass control on.
func (s *scheduler) exit(g *goroutine) {
	next := s.pick(g)
	if next == nil {
		// everybody else is blocked (or done) — if main is blocked this is a deadlock
		if !s.main.done && s.main.ready != nil {
			s.p.recordHang("all goroutines are blocked: " + s.describe())
			s.aborted = true
			s.main.wake <- struct{}{}
		}
		return
	}
	s.cur = next
	next.ready = nil
	next.wake <- struct{}{}
}

func (s *scheduler) describe() string {
	out := ""
	for _, g := range s.gs {
		if !g.done && g.ready != nil {
			out += fmt.Sprintf("[g%d %s]", g.id, g.what)
		}
	}
	return out
}

// shutdown ends all parked goroutines of this path.
func (s *scheduler) shutdown() {
	s.aborted = true
	for _, g := range s.gs {
		if g != s.main && !g.done {
			select {
			case g.wake <- struct{}{}:
			default:
			}
		}
	}
	s.wg.Wait()
}

// ---- channels ----

type pending struct {
	v     value
	taken bool
	vc    vclock
}

type channel struct {
	cap     int
	buf     []value
	sendq   []*pending // unbuffered / overflow handoff
	closed  bool
	recvW   int
	bufvc   []vclock // clocks of the buffered messages (hb-race mode)
	closevc vclock
	lastvc  vclock // clock of the message taken by the last doRecv
}

func (p *pathRun) chanSend(fr *frame, ch *channel, v value) {
	if ch == nil {
		p.sched.block(func() bool { return false }, "send on nil channel")
	}
	if ch.closed {
		p.targetPanic(fr, "send on closed channel")
	}
	if len(ch.buf) < ch.cap {
		ch.buf = append(ch.buf, v)
		ch.bufvc = append(ch.bufvc, p.sendClock())
		return
	}
	if ch.cap > 0 {
		p.sched.block(func() bool { return len(ch.buf) < ch.cap || ch.closed }, "chan send (full)")
		if ch.closed {
			p.targetPanic(fr, "send on closed channel")
		}
		ch.buf = append(ch.buf, v)
		ch.bufvc = append(ch.bufvc, p.sendClock())
		return
	}
	pd := &pending{v: v, vc: p.sendClock()}
	ch.sendq = append(ch.sendq, pd)
	p.sched.block(func() bool { return pd.taken || ch.closed }, "chan send (unbuffered)")
	if !pd.taken && ch.closed {
		p.targetPanic(fr, "send on closed channel")
	}
}

func (ch *channel) canRecv() bool {
	return len(ch.buf) > 0 || len(ch.sendq) > 0 || ch.closed
}

func (ch *channel) doRecv() (value, bool) {
	if len(ch.buf) > 0 {
		v := ch.buf[0]
		ch.buf = ch.buf[1:]
		ch.lastvc = nil
		if len(ch.bufvc) > 0 {
			ch.lastvc = ch.bufvc[0]
			ch.bufvc = ch.bufvc[1:]
		}
		return v, true
	}
	if len(ch.sendq) > 0 {
		pd := ch.sendq[0]
		ch.sendq = ch.sendq[1:]
		pd.taken = true
		ch.lastvc = pd.vc
		return pd.v, true
	}
	ch.lastvc = ch.closevc
	return nil, false // closed
}

func (p *pathRun) chanRecv(ch *channel) (value, bool) {
	if ch == nil {
		p.sched.block(func() bool { return false }, "receive on nil channel")
	}
	if !ch.canRecv() {
		ch.recvW++
		p.sched.block(ch.canRecv, "chan receive")
		ch.recvW--
	}
	v, ok := ch.doRecv()
	p.hbAcquire(ch.lastvc)
	return v, ok
}

// sendClock: a send happens before the completion of the corresponding receive
func (p *pathRun) sendClock() vclock {
	if p.race == nil {
		return nil
	}
	g := p.sched.cur
	c := g.vc.copy()
	g.vc = g.vc.tick(g.id)
	return c
}

func (ch *channel) canSend() bool {
	if ch.closed {
		return true // will panic
	}
	if ch.cap > 0 {
		return len(ch.buf) < ch.cap
	}
	return ch.recvW > len(ch.sendq)
}

// ---- sync ----

type syncState struct {
	vc      vclock // release clock (hb-race mode)
	vcR     vclock // release clock of readers (RWMutex)
	locked  bool
	owner   int
	readers int
	count   int64 // WaitGroup
	onceDone bool
}

func (p *pathRun) syncOf(addr *value) *syncState {
	st := p.syncTab[addr]
	if st == nil {
		st = &syncState{}
		p.syncTab[addr] = st
	}
	return st
}

// preempt is a voluntary scheduling point (hb-race mode with a preemption budget):
// the running goroutine may be suspended here in favour of another runnable one.
// Both continuations are explored (a free fork); the budget bounds the number of
// preemptions per path.
func (s *scheduler) preempt(where string) {
	p := s.p
	if p.preemptBudget <= 0 || p.draining {
		return
	}
	cur := s.cur
	// is anybody else runnable?
	other := false
	for _, g := range s.gs {
		if g != cur && !g.done && g.ready != nil && g.ready() {
			other = true
		}
	}
	if !other {
		return
	}
	v := p.ctx.Var(fmt.Sprintf("preempt!%d", p.counters["preempt"]), smt.Bool)
	p.counters["preempt"]++
	if p.freeFork(v) {
		return // keep running
	}
	p.preemptBudget--
	p.res.Assumes["schedule: preemption "+where]++
	s.yield()
}
