package exec

// Polynomial normal form over the atoms of integer terms. Used to decide ring
// identities syntactically (a congruence whose cross-multiplied difference is
// the zero polynomial is closed without the solver), to hand the solver a
// flattened polynomial instead of nested mods, and to extract the monomial
// content for the zero-divisor lemma (prime moduli).

import (
	"fmt"
	"math/big"
	"sort"
	"strings"

	"gosym/smt"
)

type pterm struct {
	coef  *big.Int
	atoms []*smt.Term // sorted by ID, with repetition
}

type poly map[string]*pterm

const polyCap = 6000

func monoKey(atoms []*smt.Term) string {
	var sb strings.Builder
	for _, a := range atoms {
		fmt.Fprintf(&sb, "%d.", a.ID)
	}
	return sb.String()
}

func (q poly) add(coef *big.Int, atoms []*smt.Term, mod *big.Int) {
	k := monoKey(atoms)
	if e, ok := q[k]; ok {
		e.coef = new(big.Int).Add(e.coef, coef)
		if mod != nil {
			e.coef.Mod(e.coef, mod)
		}
		if e.coef.Sign() == 0 {
			delete(q, k)
		}
		return
	}
	c := new(big.Int).Set(coef)
	if mod != nil {
		c.Mod(c, mod)
	}
	if c.Sign() == 0 {
		return
	}
	q[k] = &pterm{coef: c, atoms: atoms}
}

func polyConst(v *big.Int, mod *big.Int) poly {
	q := poly{}
	q.add(v, nil, mod)
	return q
}

func polyMul(a, b poly, mod *big.Int) (poly, bool) {
	if len(a)*len(b) > polyCap {
		return nil, false
	}
	out := poly{}
	for _, x := range a {
		for _, y := range b {
			atoms := make([]*smt.Term, 0, len(x.atoms)+len(y.atoms))
			atoms = append(atoms, x.atoms...)
			atoms = append(atoms, y.atoms...)
			sort.SliceStable(atoms, func(i, j int) bool { return atoms[i].ID < atoms[j].ID })
			out.add(new(big.Int).Mul(x.coef, y.coef), atoms, mod)
		}
	}
	return out, true
}

// polyOf expands t over +, -, *, numerals and (mod _ m) for the given modulus
// term m (reduction is a ring homomorphism); everything else is an atom.
// modC is m's value when it is a numeral (coefficients are then reduced).
func (p *pathRun) polyOf(t, m *smt.Term, modC *big.Int, memo map[*smt.Term]poly) (poly, bool) {
	if r, ok := memo[t]; ok {
		return r, r != nil
	}
	var res poly
	ok := true
	switch {
	case t.IsConst():
		res = polyConst(t.Val, modC)
	case t.Op == "mod" && m != nil && t.Args[1] == m:
		res, ok = p.polyOf(t.Args[0], m, modC, memo)
	case t.Op == "+":
		res = poly{}
		for _, a := range t.Args {
			pa, oka := p.polyOf(a, m, modC, memo)
			if !oka {
				ok = false
				break
			}
			for _, e := range pa {
				res.add(e.coef, e.atoms, modC)
			}
			if len(res) > polyCap {
				ok = false
				break
			}
		}
	case t.Op == "-":
		res = poly{}
		for i, a := range t.Args {
			pa, oka := p.polyOf(a, m, modC, memo)
			if !oka {
				ok = false
				break
			}
			neg := len(t.Args) == 1 || i > 0
			for _, e := range pa {
				c := e.coef
				if neg {
					c = new(big.Int).Neg(c)
				}
				res.add(c, e.atoms, modC)
			}
		}
	case t.Op == "*":
		res = polyConst(big.NewInt(1), modC)
		for _, a := range t.Args {
			pa, oka := p.polyOf(a, m, modC, memo)
			if !oka {
				ok = false
				break
			}
			res, ok = polyMul(res, pa, modC)
			if !ok {
				break
			}
		}
	default:
		res = poly{}
		res.add(big.NewInt(1), []*smt.Term{t}, modC)
	}
	if !ok {
		memo[t] = nil
		return nil, false
	}
	memo[t] = res
	return res, true
}

// termOf rebuilds an integer term from a polynomial (deterministic order).
func (p *pathRun) polyTerm(q poly) *smt.Term {
	c := p.ctx
	keys := make([]string, 0, len(q))
	for k := range q {
		keys = append(keys, k)
	}
	sort.Strings(keys)
	var sum []*smt.Term
	for _, k := range keys {
		e := q[k]
		fs := []*smt.Term{c.IntC(e.coef)}
		fs = append(fs, e.atoms...)
		sum = append(sum, c.Mul(fs...))
	}
	return c.Add(sum...)
}

// content returns the atoms common to all monomials (with multiplicity) and the
// quotient polynomial.
func polyContent(q poly) ([]*smt.Term, poly) {
	if len(q) == 0 {
		return nil, q
	}
	var common []*smt.Term
	first := true
	for _, e := range q {
		if first {
			common = append([]*smt.Term{}, e.atoms...)
			first = false
			continue
		}
		// multiset intersection (both sorted by ID)
		var out []*smt.Term
		i, j := 0, 0
		for i < len(common) && j < len(e.atoms) {
			switch {
			case common[i].ID == e.atoms[j].ID:
				out = append(out, common[i])
				i++
				j++
			case common[i].ID < e.atoms[j].ID:
				i++
			default:
				j++
			}
		}
		common = out
		if len(common) == 0 {
			return nil, q
		}
	}
	if len(common) == 0 {
		return nil, q
	}
	quo := poly{}
	for _, e := range q {
		var rest []*smt.Term
		i := 0
		for _, a := range e.atoms {
			if i < len(common) && common[i].ID == a.ID {
				i++
				continue
			}
			rest = append(rest, a)
		}
		quo.add(e.coef, rest, nil)
	}
	return common, quo
}

// zeroMod returns a term equivalent to E ≡ 0 (mod m), E given as a term. It
// normalises E, closes ring identities syntactically and, for prime numeral m,
// adds the zero-divisor lemma instance for E's monomial content.
func (p *pathRun) zeroMod(E, m *smt.Term) *smt.Term {
	c := p.ctx
	var modC *big.Int
	if m.IsConst() && m.Val.Sign() > 0 {
		modC = m.Val
	}
	q, ok := p.polyOf(E, m, modC, map[*smt.Term]poly{})
	if !ok {
		return c.Eq(c.Mod(E, m), c.IntC64(0))
	}
	if len(q) == 0 {
		p.res.Lemmas["ring-identity-closed"]++
		return c.True()
	}
	flat := p.polyTerm(q)
	res := c.Eq(c.Mod(flat, m), c.IntC64(0))
	if modC != nil && p.eng.knownPrime(modC) {
		mu, quo := polyContent(q)
		if len(mu) > 0 {
			var alts []*smt.Term
			seen := map[int]bool{}
			for _, a := range mu {
				if !seen[a.ID] {
					seen[a.ID] = true
					alts = append(alts, c.Eq(c.Mod(a, m), c.IntC64(0)))
				}
			}
			if len(quo) == 1 {
				// the quotient is a unit constant (coefficients are reduced and non-zero)
				for _, e := range quo {
					if len(e.atoms) > 0 {
						alts = append(alts, c.Eq(c.Mod(p.polyTerm(quo), m), c.IntC64(0)))
					}
				}
			} else {
				alts = append(alts, c.Eq(c.Mod(p.polyTerm(quo), m), c.IntC64(0)))
			}
			p.axiom("zero-divisor-lemma", c.Eq(res, c.Or(alts...)))
		} else if u, w, bq, ok := binomialFactor(q, modC); ok {
			// q = (u - w) * bq over Z_m, m prime: q ≡ 0 iff u ≡ w or bq ≡ 0
			key := fmt.Sprintf("bf:%d", res.ID)
			if p.counters[key] == 0 {
				p.counters[key] = 1
				p.axiom("zero-divisor-lemma", c.Eq(res, c.Or(p.zeroMod(c.Sub(u, w), m), p.zeroMod(p.polyTerm(bq), m))))
			}
		}
	}
	return res
}

// binomialFactor looks for two atoms u, w with (u - w) | q over Z_mod (q vanishes when w
// is replaced by u) and returns the quotient, computed by synthetic division in u.
func binomialFactor(q poly, mod *big.Int) (u, w *smt.Term, quo poly, ok bool) {
	if len(q) < 2 || len(q) > 60 {
		return
	}
	atomSet := map[int]*smt.Term{}
	for _, e := range q {
		for _, a := range e.atoms {
			atomSet[a.ID] = a
		}
	}
	if len(atomSet) > 12 {
		return
	}
	var atoms []*smt.Term
	for _, a := range atomSet {
		atoms = append(atoms, a)
	}
	sort.Slice(atoms, func(i, j int) bool { return atoms[i].ID < atoms[j].ID })
	for i := 0; i < len(atoms); i++ {
		for j := 0; j < len(atoms); j++ {
			if i == j {
				continue
			}
			u, w = atoms[i], atoms[j]
			// substitute w := u
			sub := poly{}
			for _, e := range q {
				as := make([]*smt.Term, len(e.atoms))
				for k, a := range e.atoms {
					if a == w {
						a = u
					}
					as[k] = a
				}
				sort.SliceStable(as, func(x, y int) bool { return as[x].ID < as[y].ID })
				sub.add(e.coef, as, mod)
			}
			if len(sub) != 0 {
				continue
			}
			// q = sum_k u^k A_k; divide by (u - w): b_{n-1} = A_n, b_{k-1} = A_k + w*b_k
			deg := 0
			A := map[int]poly{}
			for _, e := range q {
				k := 0
				var rest []*smt.Term
				for _, a := range e.atoms {
					if a == u {
						k++
					} else {
						rest = append(rest, a)
					}
				}
				if A[k] == nil {
					A[k] = poly{}
				}
				A[k].add(e.coef, rest, mod)
				if k > deg {
					deg = k
				}
			}
			if deg == 0 {
				continue
			}
			wp := poly{}
			wp.add(big.NewInt(1), []*smt.Term{w}, mod)
			b := poly{}
			quo = poly{}
			fine := true
			for k := deg; k >= 1; k-- {
				// b = A_k + w*b
				nb, ok2 := polyMul(wp, b, mod)
				if !ok2 {
					fine = false
					break
				}
				for _, e := range A[k] {
					nb.add(e.coef, e.atoms, mod)
				}
				b = nb
				// quotient coefficient of u^(k-1)
				for _, e := range b {
					as := append([]*smt.Term{}, e.atoms...)
					for x := 0; x < k-1; x++ {
						as = append(as, u)
					}
					sort.SliceStable(as, func(x, y int) bool { return as[x].ID < as[y].ID })
					quo.add(e.coef, as, mod)
				}
			}
			if !fine || len(quo) == 0 {
				continue
			}
			if len(quo) == 1 {
				constant := false
				for _, e := range quo {
					constant = len(e.atoms) == 0
				}
				if constant {
					continue // q is a unit multiple of (u - w) itself: nothing to split
				}
			}
			// remainder A_0 + w*b must vanish
			rem, ok2 := polyMul(wp, b, mod)
			if !ok2 {
				continue
			}
			for _, e := range A[0] {
				rem.add(e.coef, e.atoms, mod)
			}
			if len(rem) != 0 {
				continue
			}
			return u, w, quo, true
		}
	}
	return nil, nil, nil, false
}

// canonMod returns a canonical term for E mod m (m a numeral): the polynomial
// normal form of E (nested reductions modulo m flattened, coefficients reduced)
// rebuilt deterministically. Equal residues that are equal as polynomials get
// the identical term, so coordinate terms of equal points coincide
// syntactically. Falls back to the plain term when the expansion is too large.
func (p *pathRun) canonMod(E, m *smt.Term) *smt.Term {
	c := p.ctx
	if !m.IsConst() || m.Val.Sign() <= 0 {
		return c.Mod(E, m)
	}
	if E.IsConst() {
		return c.Mod(E, m)
	}
	key := [2]int{E.ID, m.ID}
	if r, ok := p.canonMemo[key]; ok {
		return r
	}
	q, ok := p.polyOf(E, m, m.Val, map[*smt.Term]poly{})
	var res *smt.Term
	if !ok {
		res = c.Mod(E, m)
	} else {
		res = c.Mod(p.polyTerm(q), m)
		if len(q) == 1 {
			for _, e := range q {
				if len(e.atoms) == 1 && e.coef.Cmp(big.NewInt(1)) == 0 && p.knownBelow(e.atoms[0], m.Val) && p.structNonNeg(e.atoms[0], 0) {
					// a value already known to lie in [0, m) is its own residue
					p.axiom("residue-of-small-value", c.Eq(res, e.atoms[0]))
				}
			}
		}
	}
	if p.canonMemo == nil {
		p.canonMemo = map[[2]int]*smt.Term{}
	}
	p.canonMemo[key] = res
	return res
}
