package exec

// Byte strings of symbolic integers, Exp, inverses and the fraction lemma.

import (
	"fmt"
	"go/types"
	"math/big"
	"sync"

	"gosym/smt"
)

// absBytes stands for x.Bytes() of a symbolic non-negative integer whose byte
// length is not known: the minimal big-endian encoding of |t|.
type absBytes struct {
	t   *smt.Term // magnitude (Int, >= 0)
	mat []value   // concrete-length bytes once the length has been case-split
}

// materialize case-splits the byte length of an abstract byte string (bounded) and
// returns its bytes as symbolic byte values.
func (p *pathRun) materialize(fr *frame, ab *absBytes) []value {
	if ab.mat != nil {
		return ab.mat
	}
	n := p.knownByteLen(ab.t)
	if n < 0 {
		l := p.byteLen(ab.t).(symInt)
		n = int(p.concretize(fr, l, "length of an abstract byte string"))
	}
	if n > 80 {
		panic(unsupported(fmt.Sprintf("abstract byte string of length %d", n)))
	}
	c := p.ctx
	// the definition of the byte length at the chosen value
	if n > 0 {
		p.axiom("bytelen-exact", c.And(c.Ge(ab.t, c.IntC(pow2(uint(8*(n-1))))), c.Lt(ab.t, c.IntC(pow2(uint(8*n))))))
	} else {
		p.axiom("bytelen-exact", c.Eq(ab.t, c.IntC64(0)))
	}
	p.unchecked = true
	p.checkFeasible("byte length case split")
	out := make([]value, n)
	if n > 0 {
		bits := p.lowBits(ab.t, 8*n)
		for i := 0; i < n; i++ {
			hi := 8*(n-i) - 1
			out[i] = normInt(types.Uint8, c.Extract(hi, hi-7, bits))
		}
		p.noteFits(ab.t, pow2(uint(8*n)))
	} else {
		out = []value{}
	}
	ab.mat = out
	return out
}

// absCat is a concatenation of byte strings some of which are abstract.
type absCat struct {
	parts []value // *absBytes or []value (non-empty)
}

func isAbsBytes(v value) bool {
	switch v.(type) {
	case *absBytes, *absCat:
		return true
	}
	return false
}

func absParts(v value) []value {
	switch x := v.(type) {
	case *absCat:
		return x.parts
	case *absBytes:
		return []value{x}
	case []value:
		if len(x) == 0 {
			return nil
		}
		return []value{x}
	case nil:
		return nil
	}
	panic(fmt.Sprintf("absParts: %T", v))
}

// catAbs concatenates; adjacent concrete-length parts are merged, empty parts dropped.
func catAbs(a, b value) value {
	var parts []value
	for _, pt := range append(append([]value{}, absParts(a)...), absParts(b)...) {
		if cur, ok := pt.([]value); ok && len(parts) > 0 {
			if prev, ok := parts[len(parts)-1].([]value); ok {
				parts[len(parts)-1] = append(append([]value{}, prev...), cur...)
				continue
			}
		}
		parts = append(parts, pt)
	}
	if len(parts) == 1 {
		return parts[0]
	}
	if len(parts) == 0 {
		return []value{}
	}
	return &absCat{parts: parts}
}

var byteLenThresholds =[]int{1, 2, 8, 16, 31, 32, 33, 48, 64, 65, 128, 256, 257, 512}

// byteLen returns len(x.Bytes()) as a symbolic int.
func (p *pathRun) byteLen(t *smt.Term) value {
	c := p.ctx
	if n := p.knownByteLen(t); n >= 0 {
		return n // pinned by bounds already on the path: a concrete length
	}
	bl := c.App("bytelen", smt.Int, t)
	var as []*smt.Term
	as = append(as, c.Ge(bl, c.IntC64(0)), c.Eq(c.Eq(bl, c.IntC64(0)), c.Eq(t, c.IntC64(0))))
	for _, k := range byteLenThresholds {
		// bytelen(x) > k  <=>  x >= 256^k
		as = append(as, c.Eq(c.Gt(bl, c.IntC64(int64(k))), c.Ge(t, c.IntC(pow2(uint(8*k))))))
	}
	as = append(as, c.Lt(bl, c.IntC64(1<<32)))
	key := fmt.Sprintf("bytelen:%d", t.ID)
	if p.counters[key] == 0 {
		p.counters[key] = 1
		p.axiom("bytelen-thresholds", c.And(as...))
	}
	return symInt{types.Int, bl} // Int-backed length
}

// absTerm is |t|, simplified when t is known to be non-negative (natural-number
// inputs, reader outputs, inverses, coordinates, powers).
func (p *pathRun) absTerm(t *smt.Term) *smt.Term {
	if p.nonneg[t] {
		return t
	}
	if p.structNonNeg(t, 0) {
		return t
	}
	return p.ctx.Abs(t)
}

// structNonNeg: t is non-negative by its syntactic structure (sums and products of
// non-negative terms, residues of positive constant moduli, ...).
func (p *pathRun) structNonNeg(t *smt.Term, depth int) bool {
	if p.nonneg[t] {
		return true
	}
	if depth > 6 {
		return false
	}
	switch t.Op {
	case "const":
		return t.Sort == smt.Int && t.Val.Sign() >= 0
	case "abs", "bv2nat":
		return true
	case "mod":
		return t.Args[1].IsConst() && t.Args[1].Val.Sign() > 0
	case "app":
		return t.Name == "pow" || t.Name == "gcd" || len(t.Name) > 2 && (t.Name[:2] == "X_" || t.Name[:2] == "Y_")
	case "ite":
		return p.structNonNeg(t.Args[1], depth+1) && p.structNonNeg(t.Args[2], depth+1)
	case "+", "*":
		for _, a := range t.Args {
			if !p.structNonNeg(a, depth+1) {
				return false
			}
		}
		return true
	}
	return false
}

func (p *pathRun) markNonNeg(t *smt.Term) {
	if p.nonneg == nil {
		p.nonneg = map[*smt.Term]bool{}
	}
	p.nonneg[t] = true
}

// pureBV: the bit-vector is assembled from symbolic bytes only (no integer-to-bit-vector
// conversion inside): only then is the minimal encoding split by leading zero bytes.
func pureBV(t *smt.Term, depth int) bool {
	if depth > 80 {
		return false
	}
	switch t.Op {
	case "var", "const":
		return true
	case "concat", "extract", "zero_extend":
		for _, a := range t.Args {
			if !pureBV(a, depth+1) {
				return false
			}
		}
		return true
	}
	return false
}

// bigBytes models (*big.Int).Bytes.
func (p *pathRun) bigBytes(fr *frame, x bigval) value {
	if x.c != nil {
		bs := x.c.Bytes()
		out := make([]value, len(bs))
		for i, b := range bs {
			out[i] = b
		}
		return out
	}
	c := p.ctx
	mag := p.absTerm(x.t)
	if x.t.Op == "bv2nat" && x.t.Args[0].Sort.W%8 == 0 && pureBV(x.t.Args[0], 0) {
		bv := x.t.Args[0]
		n := bv.Sort.W / 8
		bytes := make([]value, n)
		for i := 0; i < n; i++ {
			hi := 8*(n-i) - 1
			bytes[i] = normInt(types.Uint8, c.Extract(hi, hi-7, bv))
		}
		i := 0
		for i < n {
			z := c.Eq(p.bvOf(bytes[i]), c.BVC64(8, 0))
			if !p.fork(z, "Bytes leading zero") {
				break
			}
			i++
		}
		return bytes[i:]
	}
	return &absBytes{t: mag}
}

// fromBytes models SetBytes: big-endian unsigned.
func (p *pathRun) fromBytes(fr *frame, v value) bigval {
	switch b := v.(type) {
	case *absBytes:
		return p.mkBig(b.t)
	case []value:
		c := p.ctx
		allc := true
		for _, e := range b {
			if _, ok := e.(uint8); !ok {
				allc = false
			}
		}
		if allc {
			bs := make([]byte, len(b))
			for i, e := range b {
				bs[i] = e.(uint8)
			}
			return bigval{c: new(big.Int).SetBytes(bs)}
		}
		var acc *smt.Term
		for _, e := range b {
			t := p.bvOf(e)
			if acc == nil {
				acc = t
			} else {
				acc = c.Concat(acc, t)
			}
		}
		return p.mkBig(p.unmod(c.BV2Nat(acc)))
	case *absCat:
		// leading concrete zero bytes in front of one abstract string: its integer
		last, isAbs := b.parts[len(b.parts)-1].(*absBytes)
		zeros := isAbs
		for _, part := range b.parts[:len(b.parts)-1] {
			bs, ok := part.([]value)
			if !ok {
				zeros = false
				break
			}
			for _, e := range bs {
				if u, ok := e.(uint8); !ok || u != 0 {
					zeros = false
				}
			}
		}
		if zeros {
			return p.mkBig(last.t)
		}
		var flat []value
		for _, part := range b.parts {
			switch pt := part.(type) {
			case []value:
				flat = append(flat, pt...)
			case *absBytes:
				flat = append(flat, p.materialize(fr, pt)...)
			}
		}
		return p.fromBytes(fr, flat)
	}
	panic(fmt.Sprintf("fromBytes: %T", v))
}

// ---- Exp ----

func (p *pathRun) bigExp(fr *frame, recv value, x, y, m bigval) value {
	c := p.ctx
	xt, yt, mt := p.bt(x), p.bt(y), p.bt(m)
	mZero := false
	if m.c != nil {
		mZero = m.c.Sign() == 0
	} else {
		mZero = p.fork(c.Eq(mt, c.IntC64(0)), "Exp zero modulus")
	}
	if mZero {
		if y.c == nil && x.c != nil && x.c.Cmp(big.NewInt(2)) == 0 {
			// 2^y for a symbolic machine-integer y (MustGetRandomInt: y = BitLen of the bound):
			// an uninterpreted function with the monotonicity thresholds and, where y is the bit
			// length of a value on this path, the defining inequalities 2^(y-1) <= |b| < 2^y
			out := c.App("pow2", smt.Int, yt)
			as := []*smt.Term{c.Implies(c.Le(yt, c.IntC64(0)), c.Eq(out, c.IntC64(1))), c.Ge(out, c.IntC64(1))}
			for _, k := range bitLenThresholds {
				as = append(as, c.Eq(c.Ge(yt, c.IntC64(int64(k))), c.Ge(out, c.IntC(pow2(uint(k))))))
			}
			for _, bl := range p.bitLens {
				as = append(as, c.Implies(c.And(c.Eq(yt, bl[1]), c.Gt(bl[0], c.IntC64(0))),
					c.And(c.Gt(out, bl[0]), c.Ge(c.Mul(c.IntC64(2), bl[0]), out))))
			}
			p.axiom("pow2-thresholds", c.And(as...))
			p.markNonNeg(out)
			return p.setBig(fr, recv, p.mkBig(out))
		}
		if y.c == nil {
			panic(unsupported("Exp with symbolic exponent and no modulus"))
		}
		if y.c.Sign() <= 0 {
			return p.setBig(fr, recv, bigval{c: big.NewInt(1)})
		}
		if y.c.BitLen() > 8 {
			panic(unsupported("Exp without modulus with large exponent"))
		}
		acc := c.IntC64(1)
		for i := int64(0); i < y.c.Int64(); i++ {
			acc = c.Mul(acc, xt)
		}
		return p.setBig(fr, recv, p.mkBig(acc))
	}
	am := c.Abs(mt)
	yNeg := false
	if y.c != nil {
		yNeg = y.c.Sign() < 0
	} else {
		yNeg = p.fork(c.Lt(yt, c.IntC64(0)), "Exp negative exponent")
	}
	base := xt
	ey := yt
	if yNeg {
		g := p.gcdTerm(xt, am)
		if !p.fork(c.Eq(g, c.IntC64(1)), "Exp inverse exists") {
			return (*value)(nil)
		}
		inv := c.Fresh("inv", smt.Int)
		p.markNonNeg(inv)
		p.axiom("inverse-def", c.And(c.Ge(inv, c.IntC64(0)), c.Lt(inv, am), c.Eq(c.Mod(c.Mul(xt, inv), am), c.Mod(c.IntC64(1), am))))
		p.registerInverse(inv, xt, am)
		base = inv
		ey = c.Neg(yt)
	}
	// small concrete exponents (and ite trees over them, e.g. a challenge bit) are unrolled
	var small func(e *smt.Term) *smt.Term
	small = func(e *smt.Term) *smt.Term {
		if e.IsConst() && e.Val.Sign() >= 0 && e.Val.BitLen() <= 6 {
			acc := c.IntC64(1)
			for i := int64(0); i < e.Val.Int64(); i++ {
				acc = c.Mul(acc, base)
			}
			return c.Mod(acc, am)
		}
		if e.Op == "ite" {
			a, b := small(e.Args[1]), small(e.Args[2])
			if a != nil && b != nil {
				return c.Ite(e.Args[0], a, b)
			}
		}
		return nil
	}
	if r := small(ey); r != nil {
		return p.setBig(fr, recv, p.mkBig(r))
	}
	r := p.powTerm(base, ey, am)
	return p.setBig(fr, recv, p.mkBig(r))
}

// powTerm is the uninterpreted modular power with its basic axioms.
func (p *pathRun) powTerm(x, y, m *smt.Term) *smt.Term {
	c := p.ctx
	r := c.App("pow", smt.Int, x, y, m)
	p.axiom("pow-basic", c.And(
		c.Ge(r, c.IntC64(0)), c.Lt(r, m),
		c.Implies(c.Eq(y, c.IntC64(0)), c.Eq(r, c.Mod(c.IntC64(1), m))),
		c.Implies(c.Eq(y, c.IntC64(1)), c.Eq(r, c.Mod(x, m))),
		c.Implies(c.And(c.Eq(c.Mod(x, m), c.IntC64(0)), c.Gt(y, c.IntC64(0))), c.Eq(r, c.IntC64(0))),
		c.Implies(c.Eq(c.Mod(x, m), c.Mod(c.IntC64(1), m)), c.Eq(r, c.Mod(c.IntC64(1), m))),
	))
	p.powApps = append(p.powApps, powApp{x, y, m, r})
	return r
}

type powApp struct{ x, y, m, r *smt.Term }

// ---- inverses and the fraction lemma ----

type invRec struct{ g, m *smt.Term }

func (p *pathRun) registerInverse(inv, g, m *smt.Term) {
	if p.inverses == nil {
		p.inverses = map[*smt.Term]invRec{}
	}
	p.inverses[inv] = invRec{g, m}
}

// rat returns (n, d) with t ≡ n/d (mod m), n and d free of registered inverses
// of modulus m, built homomorphically from the term structure.
func (p *pathRun) rat(t, m *smt.Term, memo map[*smt.Term][2]*smt.Term) (n, d *smt.Term) {
	if r, ok := memo[t]; ok {
		return r[0], r[1]
	}
	c := p.ctx
	one := c.IntC64(1)
	n, d = t, one
	switch t.Op {
	case "var":
		if ir, ok := p.inverses[t]; ok && ir.m == m {
			gn, gd := p.rat(ir.g, m, memo)
			n, d = gd, gn
		}
	case "mod":
		if t.Args[1] == m {
			n, d = p.rat(t.Args[0], m, memo)
		}
	case "+":
		n, d = c.IntC64(0), one
		for _, a := range t.Args {
			an, ad := p.rat(a, m, memo)
			if ad == d {
				n = c.Add(n, an)
			} else {
				n = c.Add(c.Mul(n, ad), c.Mul(an, d))
				d = c.Mul(d, ad)
			}
		}
	case "*":
		n, d = one, one
		for _, a := range t.Args {
			an, ad := p.rat(a, m, memo)
			n = c.Mul(n, an)
			d = c.Mul(d, ad)
		}
	case "-":
		if len(t.Args) == 1 {
			an, ad := p.rat(t.Args[0], m, memo)
			n, d = c.Neg(an), ad
		} else {
			an, ad := p.rat(t.Args[0], m, memo)
			bn, bd := p.rat(t.Args[1], m, memo)
			if ad == bd {
				n, d = c.Sub(an, bn), ad
			} else {
				n, d = c.Sub(c.Mul(an, bd), c.Mul(bn, ad)), c.Mul(ad, bd)
			}
		}
	}
	memo[t] = [2]*smt.Term{n, d}
	return
}

func (p *pathRun) hasInverse(t, m *smt.Term, seen map[*smt.Term]bool) bool {
	if seen[t] {
		return false
	}
	seen[t] = true
	if t.Op == "var" {
		if ir, ok := p.inverses[t]; ok && ir.m == m {
			return true
		}
		return false
	}
	for _, a := range t.Args {
		if p.hasInverse(a, m, seen) {
			return true
		}
	}
	return false
}

// congruent returns a term equivalent to a ≡ b (mod m). When inverses modulo m
// occur, the fraction lemma is added: the congruence is equivalent to the
// cross-multiplied polynomial congruence (denominators are units by
// construction).
func (p *pathRun) congruent(a, b, m *smt.Term) *smt.Term {
	c := p.ctx
	if len(p.inverses) == 0 || !(p.hasInverse(a, m, map[*smt.Term]bool{}) || p.hasInverse(b, m, map[*smt.Term]bool{})) {
		// no inverses: the congruence of the flattened difference (ring homomorphism)
		return p.zeroMod(c.Sub(a, b), m)
	}
	plain := c.Eq(c.Mod(c.Sub(a, b), m), c.IntC64(0))
	memo := map[*smt.Term][2]*smt.Term{}
	an, ad := p.rat(a, m, memo)
	bn, bd := p.rat(b, m, memo)
	cross := p.zeroMod(c.Sub(c.Mul(an, bd), c.Mul(bn, ad)), m)
	p.axiom("fraction-lemma", c.Eq(plain, cross))
	return cross
}

// reducedMod reports the modulus m if t is syntactically a canonical residue mod m.
func (p *pathRun) reducedMod(t *smt.Term) *smt.Term {
	if t.Op == "mod" {
		return t.Args[1]
	}
	if t.Op == "var" {
		if ir, ok := p.inverses[t]; ok {
			return ir.m
		}
	}
	return nil
}

// smartEq is integer equality that applies the fraction lemma when both sides
// are canonical residues of the same modulus.
func (p *pathRun) smartEq(a, b *smt.Term) *smt.Term {
	c := p.ctx
	{
		ma, mb := p.reducedMod(a), p.reducedMod(b)
		if ma != nil && ma == mb && a != b {
			eq := c.Eq(a, b)
			cg := p.congruent(a, b, ma)
			p.axiom("residue-equality", c.Eq(eq, cg))
			return cg
		}
	}
	return c.Eq(a, b)
}

// ---- primality of numerals (trusted base: Miller-Rabin, 32 rounds) ----

var primeCache sync.Map

func (e *Engine) knownPrime(v *big.Int) bool {
	if v.Sign() <= 0 || v.BitLen() > 600 {
		return false
	}
	k := v.String()
	if r, ok := primeCache.Load(k); ok {
		return r.(bool)
	}
	r := v.ProbablyPrime(32)
	primeCache.Store(k, r)
	return r
}
