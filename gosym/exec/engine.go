package exec

import (
	"fmt"
	"go/token"
	"go/types"
	"os"
	"path/filepath"
	"runtime/debug"
	"sort"
	"strings"
	"sync"
	"sync/atomic"
	"time"

	"golang.org/x/tools/go/packages"
	"golang.org/x/tools/go/ssa"
	"golang.org/x/tools/go/ssa/ssautil"

	"gosym/smt"
)

type HarnessCfg struct {
	MaxPaths int
}

type Engine struct {
	RepoDir     string
	Module      string
	prog        *ssa.Program
	pkgs        []*packages.Package
	byPath      map[string]*ssa.Package
	ExecPkgs    map[string]bool // non-module packages executed from their own SSA
	MaxDepth    int
	MaxUnwind   int
	MaxSteps    int64
	MaxPaths    int
	FeasMs      int
	VerdictMs   int
	Workers     int
	SolverKind  string
	DumpQueries string
	vioSeen        sync.Map
	AbstractHashes bool
	NoIncremental  bool
	IncMs          int
	czCache     sync.Map
	Verbose     bool
	LoadTime    time.Duration
	dumpMu      sync.Mutex
	dumpN       int
	buildMu     sync.Mutex
	built       map[*ssa.Package]bool
}

// default allow-list of non-module packages that are executed from SSA.
var defaultExecPkgs = []string{
	"errors", "sort", "bytes", "strings", "strconv", "unicode/utf8", "unicode", "math/bits",
	"encoding/hex", "encoding/binary", "io", "slices", "cmp", "internal/bytealg", "math",
	"internal/itoa", "internal/stringslite", "container/list",
}

func NewEngine(repo string) *Engine {
	e := &Engine{
		RepoDir: repo, Module: "github.com/bnb-chain/tss-lib/v2",
		ExecPkgs: map[string]bool{}, byPath: map[string]*ssa.Package{}, built: map[*ssa.Package]bool{},
		MaxDepth: 4000, MaxUnwind: 100000, MaxSteps: 200_000_000, MaxPaths: 20000,
		FeasMs: 5000, VerdictMs: 20000, Workers: 8, SolverKind: "z3-new",
	}
	for _, p := range defaultExecPkgs {
		e.ExecPkgs[p] = true
	}
	return e
}

func (e *Engine) seenViolation(h, label string) int {
	v, _ := e.vioSeen.Load(h + "|" + label)
	if v == nil {
		return 0
	}
	return int(v.(*atomic.Int64).Load())
}

func (e *Engine) noteViolation(h, label string) {
	v, _ := e.vioSeen.LoadOrStore(h+"|"+label, new(atomic.Int64))
	v.(*atomic.Int64).Add(1)
}

func (e *Engine) inModule(pkg string) bool {
	return pkg == e.Module || strings.HasPrefix(pkg, e.Module+"/")
}

func (e *Engine) execPkg(pkg string) bool {
	return e.inModule(pkg) || e.ExecPkgs[pkg]
}

func (e *Engine) relFile(f string) string {
	if r, err := filepath.Rel(e.RepoDir, f); err == nil && !strings.HasPrefix(r, "..") {
		return r
	}
	return f
}

func (e *Engine) build(pkg *ssa.Package) {
	e.buildMu.Lock()
	defer e.buildMu.Unlock()
	if !e.built[pkg] {
		pkg.Build()
		e.built[pkg] = true
	}
}

func (e *Engine) dumpQuery(h, script string) {
	e.dumpMu.Lock()
	defer e.dumpMu.Unlock()
	e.dumpN++
	os.MkdirAll(e.DumpQueries, 0o755)
	os.WriteFile(filepath.Join(e.DumpQueries, fmt.Sprintf("%s_%05d.smt2", shortFn(h), e.dumpN)), []byte(script+"(check-sat)\n"), 0o644)
}

// Load type-checks the given package patterns of the repo with the overlay
// (virtual path -> real file) applied and builds the SSA program shell.
func (e *Engine) Load(patterns []string, overlay map[string]string, tags string) error {
	t0 := time.Now()
	ov := map[string][]byte{}
	for virt, real := range overlay {
		b, err := os.ReadFile(real)
		if err != nil {
			return err
		}
		ov[virt] = b
	}
	cfg := &packages.Config{
		Mode:       packages.NeedName | packages.NeedFiles | packages.NeedCompiledGoFiles | packages.NeedImports | packages.NeedDeps | packages.NeedTypes | packages.NeedSyntax | packages.NeedTypesInfo | packages.NeedTypesSizes | packages.NeedModule,
		Dir:        e.RepoDir,
		Overlay:    ov,
		BuildFlags: []string{"-tags=" + tags, "-mod=mod"},
		Env:        append(os.Environ(), "GOFLAGS=-mod=mod", "GOPROXY=off", "GOSUMDB=off", "GOTOOLCHAIN=local"),
	}
	pkgs, err := packages.Load(cfg, patterns...)
	if err != nil {
		return err
	}
	var errs []string
	packages.Visit(pkgs, nil, func(p *packages.Package) {
		for _, er := range p.Errors {
			errs = append(errs, er.Error())
		}
	})
	if len(errs) > 0 {
		if len(errs) > 20 {
			errs = errs[:20]
		}
		return fmt.Errorf("load errors:\n%s", strings.Join(errs, "\n"))
	}
	prog, _ := ssautil.AllPackages(pkgs, ssa.InstantiateGenerics)
	e.prog = prog
	e.pkgs = pkgs
	for _, p := range prog.AllPackages() {
		e.byPath[p.Pkg.Path()] = p
	}
	// build module packages eagerly (in parallel), the rest on demand
	var wg sync.WaitGroup
	for _, p := range prog.AllPackages() {
		if e.inModule(p.Pkg.Path()) {
			wg.Add(1)
			go func(p *ssa.Package) {
				defer wg.Done()
				p.Build()
			}(p)
			e.built[p] = true
		}
	}
	wg.Wait()
	e.LoadTime = time.Since(t0)
	return nil
}

func (e *Engine) FindFunc(pkgPath, name string) *ssa.Function {
	p := e.byPath[pkgPath]
	if p == nil {
		return nil
	}
	return p.Func(name)
}

// Harnesses lists functions named VerifHarness_* in module packages.
func (e *Engine) Harnesses() []*ssa.Function {
	var out []*ssa.Function
	for path, p := range e.byPath {
		if !e.inModule(path) {
			continue
		}
		for name, m := range p.Members {
			if f, ok := m.(*ssa.Function); ok && strings.HasPrefix(name, "VerifHarness_") {
				out = append(out, f)
			}
		}
	}
	sort.Slice(out, func(i, j int) bool { return out[i].String() < out[j].String() })
	return out
}

// ---- results ----

type HarnessResult struct {
	Harness      string         `json:"harness"`
	Paths        int            `json:"paths"`
	Outcomes     map[string]int `json:"outcomes"`
	Obligations  []Obligation   `json:"obligations"`
	Reached      []string       `json:"reached"`
	ExpectReach  []string       `json:"expect_reach"`
	Notes        []string       `json:"notes,omitempty"`
	Queries      int            `json:"queries"`
	Forks        int            `json:"forks"`
	Steps        int64          `json:"steps"`
	Funcs        []string       `json:"functions_encoded"`
	Intrinsics   map[string]int `json:"intrinsics"`
	Assumes      map[string]int `json:"assumes"`
	Lemmas       map[string]int `json:"lemmas"`
	Complete     bool           `json:"complete"`
	WallMs       int64          `json:"wall_ms"`
	SolverMs     int64          `json:"solver_ms"`
	MaxQueryMs   int64          `json:"max_query_ms"`
	SolverErrors int            `json:"solver_errors"`
	Details      []string       `json:"details,omitempty"`
}

// expectedReach scans the harness (and its module callees, shallowly) for Reach("label") calls.
func (e *Engine) expectedReach(h *ssa.Function) []string {
	seen := map[string]bool{}
	visited := map[*ssa.Function]bool{}
	var walk func(f *ssa.Function, depth int)
	walk = func(f *ssa.Function, depth int) {
		if f == nil || visited[f] || f.Blocks == nil || depth > 3 {
			return
		}
		visited[f] = true
		for _, b := range f.Blocks {
			for _, in := range b.Instrs {
				c, ok := in.(*ssa.Call)
				if !ok {
					if mc, ok := in.(*ssa.MakeClosure); ok {
						walk(mc.Fn.(*ssa.Function), depth+1)
					}
					continue
				}
				callee := c.Call.StaticCallee()
				if callee == nil {
					continue
				}
				if callee.String() == e.Module+"/zzverifapi.Reach" {
					if k, ok := c.Call.Args[0].(*ssa.Const); ok {
						seen[constValue(k).(string)] = true
					}
				} else if strings.Contains(callee.Name(), "verif") || strings.Contains(callee.Name(), "Verif") {
					walk(callee, depth+1)
				}
			}
		}
	}
	walk(h, 0)
	return sortedKeys(seen)
}

func (e *Engine) RunHarness(h *ssa.Function) *HarnessResult {
	t0 := time.Now()
	hr := &HarnessResult{Harness: h.String(), Outcomes: map[string]int{}, Intrinsics: map[string]int{}, Assumes: map[string]int{}, Lemmas: map[string]int{}}
	hr.ExpectReach = e.expectedReach(h)
	funcs := map[string]bool{}
	reached := map[string]bool{}

	var mu sync.Mutex
	work := [][]bool{{}}
	inflight := 0
	cond := sync.NewCond(&mu)
	started := 0
	truncated := false

	var solvers []*smt.Solver
	worker := func() {
		s, err := smt.NewSolver(e.SolverKind)
		if err != nil {
			mu.Lock()
			hr.Details = append(hr.Details, "cannot start solver: "+err.Error())
			mu.Unlock()
			return
		}
		si, err := smt.NewSolver(e.SolverKind)
		if err != nil {
			return
		}
		mu.Lock()
		solvers = append(solvers, s, si)
		mu.Unlock()
		defer s.Close()
		defer si.Close()
		for {
			mu.Lock()
			for len(work) == 0 && inflight > 0 {
				cond.Wait()
			}
			if len(work) == 0 {
				mu.Unlock()
				cond.Broadcast()
				return
			}
			if started >= e.MaxPaths {
				truncated = true
				work = nil
				mu.Unlock()
				cond.Broadcast()
				return
			}
			prefix := work[len(work)-1]
			work = work[:len(work)-1]
			inflight++
			started++
			mu.Unlock()

			res := e.runPath(h, prefix, s, si)

			mu.Lock()
			inflight--
			hr.Paths++
			hr.Outcomes[res.Outcome]++
			if res.Outcome != "ok" && res.Outcome != "pruned" && len(hr.Details) < 40 {
				hr.Details = append(hr.Details, res.Outcome+": "+res.Detail)
			}
			hr.Obligations = append(hr.Obligations, res.Obligations...)
			hr.Queries += res.Queries
			hr.Forks += res.Forks
			hr.Steps += res.Steps
			for k := range res.Funcs {
				funcs[k] = true
			}
			for k := range res.Reached {
				reached[k] = true
			}
			for k, v := range res.Intrinsics {
				hr.Intrinsics[k] += v
			}
			for k, v := range res.Assumes {
				hr.Assumes[k] += v
			}
			for k, v := range res.Lemmas {
				hr.Lemmas[k] += v
			}
			for _, n := range res.Notes {
				if len(hr.Notes) < 40 {
					hr.Notes = append(hr.Notes, n)
				}
			}
			work = append(work, res.Alts...)
			mu.Unlock()
			cond.Broadcast()
		}
	}
	var wg sync.WaitGroup
	for i := 0; i < e.Workers; i++ {
		wg.Add(1)
		go func() { defer wg.Done(); worker() }()
	}
	stopProg := make(chan struct{})
	if os.Getenv("GOSYM_PROGRESS") != "" {
		go func() {
			tk := time.NewTicker(20 * time.Second)
			defer tk.Stop()
			for {
				select {
				case <-stopProg:
					return
				case <-tk.C:
					mu.Lock()
					var q int
					var st time.Duration
					for _, s := range solvers {
						q += s.Stats.Queries
						st += s.Stats.Time
					}
					fmt.Fprintf(os.Stderr, "  [progress %s] paths done=%d inflight=%d queued=%d solver queries=%d solver time=%v\n",
						shortFn(h.String()), hr.Paths, inflight, len(work), q, st.Round(time.Second))
					mu.Unlock()
				}
			}
		}()
	}
	wg.Wait()
	close(stopProg)
	for _, s := range solvers {
		hr.SolverMs += s.Stats.Time.Milliseconds()
		if s.Stats.MaxQuery.Milliseconds() > hr.MaxQueryMs {
			hr.MaxQueryMs = s.Stats.MaxQuery.Milliseconds()
		}
		hr.SolverErrors += s.Stats.Errors
	}
	hr.Funcs = sortedKeys(funcs)
	hr.Reached = sortedKeys(reached)
	hr.Complete = !truncated
	if truncated {
		hr.Details = append(hr.Details, fmt.Sprintf("path budget %d exhausted: exploration incomplete", e.MaxPaths))
	}
	hr.WallMs = time.Since(t0).Milliseconds()
	return hr
}

func (e *Engine) runPath(h *ssa.Function, prefix []bool, s, si *smt.Solver) (res *pathResult) {
	res = &pathResult{Reached: map[string]bool{}, Funcs: map[string]bool{}, Intrinsics: map[string]int{}, Assumes: map[string]int{}, Lemmas: map[string]int{}}
	p := &pathRun{
		eng: e, harness: h.String(), ctx: smt.NewCtx(), prefix: prefix, solver: s, res: res,
		ndSeen: map[string]bool{}, syncTab: map[*value]*syncState{}, counters: map[string]int{},
		ghost: map[string]value{}, stringsT: map[string]*smt.Term{},
	}
	if si != nil && !e.NoIncremental {
		p.inc = smt.NewInc(si, p.ctx)
	}
	p.sched = newScheduler(p)
	it := &interpreter{eng: e, p: p, prog: e.prog, globals: map[*ssa.Global]*value{}, inited: map[*ssa.Package]bool{},
		sizes: types.SizesFor("gc", "amd64")}
	func() {
		defer func() {
			if r := recover(); r != nil {
				p.classify(r)
			}
		}()
		call(it, nil, token.NoPos, h, nil)
		// goroutines that outlive the harness call are run to completion, but their
		// forks are not multiplied out (one feasible branch each; counted)
		p.draining = true
		for p.sched.yield() {
		}
		if !p.done {
			p.done = true
			res.Outcome = "ok"
			// every completed path discharges the implicit obligation "no panic, no hang on this path"
			res.Obligations = append(res.Obligations, Obligation{Kind: "no-panic", Label: "path completes without panic or hang",
				Status: "discharged", Trail: trailString(p.trail)})
		}
	}()
	p.sched.shutdown()
	res.Steps = p.steps
	return res
}

// classify turns a Go panic that unwound the interpreter into a path outcome.
func (p *pathRun) classify(r interface{}) {
	switch r := r.(type) {
	case pathAbort:
		// outcome already recorded
	case unsupportedErr:
		if !p.done {
			p.done = true
			p.res.Outcome = "unsupported"
			p.res.Detail = r.msg
			p.res.Obligations = append(p.res.Obligations, Obligation{Kind: "unsupported", Label: r.msg, Status: "inconclusive", Diag: "construct outside the executor's model", Trail: trailString(p.trail)})
		}
	default:
		if !p.done {
			p.done = true
			p.res.Outcome = "internal"
			st := string(debug.Stack())
			if len(st) > 3000 {
				st = st[:3000]
			}
			p.res.Detail = fmt.Sprintf("%v\ninterp stack: %v\n%s", r, p.stack(p.lastFr), st)
			p.res.Obligations = append(p.res.Obligations, Obligation{Kind: "unsupported", Label: fmt.Sprintf("executor error: %v", r), Status: "inconclusive", Trail: trailString(p.trail)})
		}
	}
}

func (p *pathRun) recordCrash(r interface{}) { p.classify(r) }

func (p *pathRun) recordHang(msg string) {
	defer func() { recover() }()
	p.raise(nil, "hang", msg)
}
