package exec

// Randomness: every read of the harness reader yields a fresh named unknown
// constrained only by the documented range. Plus the checked summaries of the
// module's sampling helpers (their real code is the subject of C19).

import (
	"fmt"
	"go/types"

	"golang.org/x/tools/go/ssa"

	"gosym/smt"
)

func init() {
	intrinsics[apiPkg+".Reader"] = func(fr *frame, a []value) value {
		ap := fr.i.eng.byPath[apiPkg]
		t := ap.Type("replayReader").Type()
		var s value = structure{a[0].(string), int(0), (*ssa.Function)(nil)}
		return iface{t: types.NewPointer(t), v: &s}
	}
	intrinsics[apiPkg+".ReaderWith"] = func(fr *frame, a []value) value {
		ap := fr.i.eng.byPath[apiPkg]
		t := ap.Type("replayReader").Type()
		var s value = structure{a[0].(string), int(0), a[1]}
		return iface{t: types.NewPointer(t), v: &s}
	}
	intrinsics["(*"+apiPkg+".replayReader).Read"] = func(fr *frame, a []value) value {
		p := fr.i.p
		c := p.ctx
		buf := a[1].([]value)
		n := len(buf)
		if n == 0 {
			return tuple{0, iface{}}
		}
		v := p.nextRand(fr, a[0])
		p.addPC(c.And(c.Ge(v, c.IntC64(0)), c.Lt(v, c.IntC(pow2(uint(8*n))))))
		bits := c.Int2BV(8*n, v)
		for i := 0; i < n; i++ {
			hi := 8*(n-i) - 1
			buf[i] = normInt(types.Uint8, c.Extract(hi, hi-7, bits))
		}
		return tuple{n, iface{}}
	}
	// crypto/rand.Int(reader, max): uniform in [0, max); panics for max <= 0
	intrinsics["crypto/rand.Int"] = func(fr *frame, a []value) value {
		p := fr.i.p
		c := p.ctx
		max := p.bigTerm(fr, a[1])
		if p.fork(c.Le(max, c.IntC64(0)), "rand.Int max<=0") {
			p.targetPanic(fr.caller, "crypto/rand: argument to Int is <= 0")
		}
		rd := p.readerOf(fr, a[0])
		v := p.nextRand(fr, rd)
		p.addPC(c.And(c.Ge(v, c.IntC64(0)), c.Lt(v, max)))
		return tuple{p.newBig(v), iface{}}
	}
	// the real crypto/rand.Reader (default of tss.Parameters) is modelled as an anonymous source
	intrinsics["(*crypto/rand.reader).Read"] = func(fr *frame, a []value) value {
		p := fr.i.p
		buf := a[1].([]value)
		for i := range buf {
			p.randSeq++
			buf[i] = symInt{types.Uint8, p.nondetVar(fmt.Sprintf("sysrand_%d", p.randSeq), smt.BV(8))}
		}
		return tuple{len(buf), iface{}}
	}

	// ---- summaries of module samplers (enabled unless the harness calls NoSummaries) ----
	summaries["github.com/bnb-chain/tss-lib/v2/common.GetRandomPositiveInt"] = func(fr *frame, a []value) value {
		p := fr.i.p
		c := p.ctx
		if a[1].(*value) == nil {
			return (*value)(nil)
		}
		lt := p.bigTerm(fr, a[1])
		if p.fork(c.Le(lt, c.IntC64(0)), "GetRandomPositiveInt bound<=0") {
			return (*value)(nil)
		}
		v := p.nextRand(fr, p.readerOf(fr, a[0]))
		p.addPC(c.And(c.Ge(v, c.IntC64(0)), c.Lt(v, lt)))
		if lt.IsConst() {
			p.noteFits(v, lt.Val)
		}
		return p.newBig(v)
	}
	summaries["github.com/bnb-chain/tss-lib/v2/common.GetRandomPositiveRelativelyPrimeInt"] = func(fr *frame, a []value) value {
		p := fr.i.p
		c := p.ctx
		if a[1].(*value) == nil {
			return (*value)(nil)
		}
		n := p.bigTerm(fr, a[1])
		if p.fork(c.Le(n, c.IntC64(0)), "GetRandomPositiveRelativelyPrimeInt bound<=0") {
			return (*value)(nil)
		}
		v := p.nextRand(fr, p.readerOf(fr, a[0]))
		g := p.gcdTerm(v, n)
		p.addPC(c.And(c.Ge(v, c.IntC64(1)), c.Lt(v, n), c.Eq(g, c.IntC64(1))))
		return p.newBig(v)
	}
	intrinsics[apiPkg+".NoSummaries"] = func(fr *frame, a []value) value {
		fr.i.p.noSumm = true
		return nil
	}
	intrinsics[apiPkg+".Summarise"] = func(fr *frame, a []value) value {
		if fr.i.p.summ == nil {
			fr.i.p.summ = map[string]bool{}
		}
		fr.i.p.summ[a[0].(string)] = true
		switch a[0].(string) {
		case "hb-race":
			fr.i.p.race = &raceState{cells: map[interface{}]*shadow{}, reported: map[string]bool{}}
		case "preempt-1":
			fr.i.p.preemptBudget = 1
		case "preempt-2":
			fr.i.p.preemptBudget = 2
		case "preempt-3":
			fr.i.p.preemptBudget = 3
		}
		return nil
	}
	intrinsics[apiPkg+".UnwindAssume"] = func(fr *frame, a []value) value {
		fr.i.p.unwindAssume = int(asInt64(a[0]))
		return nil
	}
}

// summaries are module functions replaced by their checked specification.
var summaries = map[string]externalFn{}

// optSummaries are used only when the harness asks for them with Summarise(name).
var optSummaries = map[string]externalFn{}

// readerOf extracts the harness reader object from an io.Reader interface value.
func (p *pathRun) readerOf(fr *frame, v value) value {
	itf, ok := v.(iface)
	if !ok || itf.t == nil {
		fr.nilDeref("nil io.Reader")
	}
	return itf.v
}

// nextRand returns the next named unknown of a reader (name#k), or an
// anonymous one for the system reader.
func (p *pathRun) nextRand(fr *frame, rd value) *smt.Term {
	ptr, ok := rd.(*value)
	if ok && ptr != nil {
		if st, ok := (*ptr).(structure); ok && len(st) == 3 {
			if name, ok := st[0].(string); ok {
				k := st[1].(int)
				st[1] = k + 1
				v := p.nondetVar(fmt.Sprintf("%s#%d", name, k), smt.Int)
				p.addPC(p.ctx.Ge(v, p.ctx.IntC64(0)))
				p.markNonNeg(v)
				// coin predicate of the harness (ReaderWith): an assumption on honest randomness
				switch pred := st[2].(type) {
				case *closure:
					r := call(fr.i, fr, 0, pred, []value{k, p.newBig(v)})
					p.assume("coin-predicate:"+name, p.boolTerm(r))
				case *ssa.Function:
					if pred != nil {
						r := call(fr.i, fr, 0, pred, []value{k, p.newBig(v)})
						p.assume("coin-predicate:"+name, p.boolTerm(r))
					}
				}
				return v
			}
		}
	}
	p.randSeq++
	v := p.nondetVar(fmt.Sprintf("sysrand_%d", p.randSeq), smt.Int)
	p.addPC(p.ctx.Ge(v, p.ctx.IntC64(0)))
	p.markNonNeg(v)
	return v
}
