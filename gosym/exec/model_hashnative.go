package exec

import (
	"crypto/hmac"
	"crypto/sha256"
	"crypto/sha512"
	"hash"

	"golang.org/x/crypto/ripemd160"
)

func nativeHash(name string) func() hash.Hash {
	switch name {
	case "sha512_256":
		return sha512.New512_256
	case "sha256":
		return sha256.New
	case "sha512":
		return sha512.New
	case "ripemd160":
		return ripemd160.New
	}
	return nil
}

// concreteHash evaluates a modelled hash natively on concrete input.
func concreteHash(name string, data []byte) []byte {
	if f := nativeHash(name); f != nil {
		h := f()
		h.Write(data)
		return h.Sum(nil)
	}
	return nil
}

func concreteHMAC(name string, key, data []byte) []byte {
	if len(name) > 5 && name[:5] == "hmac_" {
		if f := nativeHash(name[5:]); f != nil {
			h := hmac.New(f, key)
			h.Write(data)
			return h.Sum(nil)
		}
	}
	return nil
}
