package exec

// One path of one harness: path condition, decision trail (re-execution based
// exploration: a path is identified by its sequence of fork decisions; no state
// is ever cloned), obligations, outcome.

import (
	"fmt"
	"go/token"
	"math/big"
	"os"
	"sort"
	"strings"
	"time"

	"gosym/smt"
)

type Obligation struct {
	Kind   string            `json:"kind"` // assert | panic | hang | unsupported | bound
	Label  string            `json:"label"`
	Site   string            `json:"site,omitempty"`
	Stack  []string          `json:"stack,omitempty"`
	Status string            `json:"status"` // discharged | violated | inconclusive
	Diag   string            `json:"diag,omitempty"`
	Model  map[string]string `json:"model,omitempty"`
	Trail  string            `json:"trail,omitempty"`
}

type pathResult struct {
	Outcome     string // ok | pruned | panic | unsupported | bound | hang | internal
	Detail      string
	Obligations []Obligation
	Alts        [][]bool
	Reached     map[string]bool
	Notes       []string
	Queries     int
	Forks       int
	Steps       int64
	Funcs       map[string]bool
	Intrinsics  map[string]int
	Assumes     map[string]int
	Lemmas      map[string]int
}

// sentinel panics used to unwind the interpreter
type pathAbort struct{}        // path is finished (outcome already recorded)
type unsupportedErr struct{ msg string }

func unsupported(msg string) unsupportedErr { return unsupportedErr{msg} }

type nondetRec struct {
	name string
	t    *smt.Term
}

type pathRun struct {
	eng     *Engine
	harness string
	ctx     *smt.Ctx
	pc      []*smt.Term
	prefix  []bool
	trail   []bool
	solver  *smt.Solver
	res     *pathResult
	nondets []nondetRec
	ndSeen  map[string]bool
	sched   *scheduler
	steps   int64
	done    bool
	cfg     *HarnessCfg
	// model state
	points   []*pointRec // known curve points on this path
	syncTab  map[*value]*syncState
	counters map[string]int
	randSeq  int
	hashApps []hashApp
	ghost    map[string]value
	stringsT map[string]*smt.Term
	powApps  []powApp
	inverses map[*smt.Term]invRec
	summ     map[string]bool
	lastFr   *frame
	noSumm   bool
	unwindAssume int
	curveTab map[*value]*curveObj
	nonneg   map[*smt.Term]bool
	concPts  []concPt
	draining bool
	inc      *smt.Inc
	anyTab   map[*value]value
	merrMsg  map[*value]string
	observing bool
	fitsTab  map[*smt.Term]*big.Int
	proofs   map[*smt.Term]*proofRec
	lowerTab map[*smt.Term]*big.Int
	unchecked bool
	encTab   map[*smt.Term]geGhost
	canonMemo map[[2]int]*smt.Term
	hashIntApps []hashIntApp
	bitLens [][2]*smt.Term
	race *raceState
	preemptBudget int
}

func (p *pathRun) note(format string, a ...interface{}) {
	if len(p.res.Notes) < 50 {
		p.res.Notes = append(p.res.Notes, fmt.Sprintf(format, a...))
	}
}

func trailString(t []bool) string {
	var sb strings.Builder
	for _, b := range t {
		if b {
			sb.WriteByte('1')
		} else {
			sb.WriteByte('0')
		}
	}
	return sb.String()
}

func (p *pathRun) addPC(t *smt.Term) {
	if t.IsTrue() {
		return
	}
	p.learnBounds(t)
	p.pc = append(p.pc, t)
}

// axiom adds a model axiom / lemma instance (always true in the intended model).
func (p *pathRun) axiom(schema string, t *smt.Term) {
	p.res.Lemmas[schema]++
	p.addPC(t)
}

func (p *pathRun) query(extra *smt.Term, timeoutMs int, wantModel bool) (smt.Result, map[string]*big.Int, string) {
	as := append([]*smt.Term{}, p.pc...)
	if extra != nil {
		as = append(as, extra)
	}
	script := p.ctx.Script(as)
	var names []string
	if wantModel {
		for _, v := range smt.VarsIn(as) {
			names = append(names, v.Name)
		}
	}
	p.res.Queries++
	if p.eng.DumpQueries != "" {
		p.eng.dumpQuery(p.harness, script)
	}
	r, m, d := p.solver.Check(script, timeoutMs, names)
	return r, m, d
}

// fork decides a symbolic branch. Returns the branch taken on this path.
func (p *pathRun) fork(cond *smt.Term, why string) bool {
	if cond.IsTrue() {
		return true
	}
	if cond.IsFalse() {
		return false
	}
	pos := len(p.trail)
	if pos < len(p.prefix) {
		d := p.prefix[pos]
		p.trail = append(p.trail, d)
		if d {
			p.addPC(cond)
		} else {
			p.addPC(p.ctx.Not(cond))
		}
		return d
	}
	if len(p.trail) >= p.eng.MaxDepth {
		p.finish("bound", fmt.Sprintf("decision depth %d exceeded at %s", p.eng.MaxDepth, why))
	}
	p.res.Forks++
	tf := time.Now()
	defer func() {
		if d := time.Since(tf); d > 700*time.Millisecond && os.Getenv("GOSYM_SLOW") != "" {
			cs := cond.String()
			if n := 200; len(cs) > n && os.Getenv("GOSYM_SLOW") != "full" {
				cs = cs[:n]
			}
			fmt.Fprintf(os.Stderr, "  [slow fork %v] %s at %s: %s\n     stack %v\n", d.Round(time.Millisecond), why, p.site(p.lastFr), cs, p.stack(p.lastFr))
		}
	}()
	rt := p.feas(cond)
	if rt == smt.Sat {
		p.unchecked = false
	}
	if rt == smt.Unsat && p.unchecked {
		// assumptions were added without a feasibility check: the path itself may be infeasible
		if p.feas(p.ctx.Not(cond)) == smt.Unsat {
			p.finish("pruned", "assumptions infeasible (found at "+why+")")
		}
		p.unchecked = false
	}
	if rt == smt.Unsat {
		p.trail = append(p.trail, false)
		p.addPC(p.ctx.Not(cond))
		return false
	}
	rf := p.feas(p.ctx.Not(cond))
	if rf == smt.Unsat {
		p.trail = append(p.trail, true)
		p.addPC(cond)
		return true
	}
	if rt == smt.Unknown || rf == smt.Unknown {
		p.note("fork with unknown feasibility at %s", why)
	}
	if p.draining {
		p.res.Assumes["drain-mode-branch-not-explored"]++
		p.trail = append(p.trail, true)
		p.addPC(cond)
		return true
	}
	alt := append(append([]bool{}, p.trail...), false)
	p.res.Alts = append(p.res.Alts, alt)
	p.trail = append(p.trail, true)
	p.addPC(cond)
	return true
}

// feas decides feasibility of pc ∧ extra: incrementally first (short timeout),
// falling back to a stateless one-shot query when that is inconclusive.
func (p *pathRun) feas(extra *smt.Term) smt.Result {
	if p.inc != nil {
		ms := p.eng.IncMs
		if ms == 0 {
			ms = 1500
		}
		p.res.Queries++
		if r := p.inc.Check(p.pc, extra, ms); r != smt.Unknown {
			return r
		}
	}
	r, _, _ := p.query(extra, p.eng.FeasMs, false)
	return r
}

// freeFork is a fork whose two sides are feasible by construction (a choice on a
// fresh variable): no solver call.
func (p *pathRun) freeFork(cond *smt.Term) bool {
	pos := len(p.trail)
	if pos < len(p.prefix) {
		d := p.prefix[pos]
		p.trail = append(p.trail, d)
		if d {
			p.addPC(cond)
		} else {
			p.addPC(p.ctx.Not(cond))
		}
		return d
	}
	alt := append(append([]bool{}, p.trail...), false)
	p.res.Alts = append(p.res.Alts, alt)
	p.trail = append(p.trail, true)
	p.addPC(cond)
	return true
}

// forkValue is fork on a Go-level boolean value.
func (p *pathRun) forkValue(v value, why string) bool {
	switch v := v.(type) {
	case bool:
		return v
	case symBool:
		return p.fork(v.t, why)
	}
	panic(fmt.Sprintf("forkValue: %T", v))
}

func (p *pathRun) finish(outcome, detail string) {
	if !p.done {
		p.done = true
		p.res.Outcome = outcome
		p.res.Detail = detail
	}
	panic(pathAbort{})
}

// assume adds cond to the path condition; prunes the path if infeasible.
func (p *pathRun) assume(label string, cond *smt.Term) {
	p.res.Assumes[label]++
	if cond.IsTrue() {
		return
	}
	if cond.IsFalse() {
		p.finish("pruned", "assume "+label)
	}
	p.learnBounds(cond)
	pos := len(p.trail)
	if pos < len(p.prefix) {
		// feasibility was established when this prefix was created
		p.trail = append(p.trail, true)
		p.addPC(cond)
		return
	}
	// lazy: the feasibility of the strengthened path condition is established at the next
	// fork (both sides infeasible = pruned) or at the next vacuity witness
	p.addPC(cond)
	p.unchecked = true
	p.trail = append(p.trail, true)
}

// genericCoins: in harnesses of all-honest runs (Summarise("generic-coins")) an event that
// needs honest coins to hit a measure-zero relation (a sum ≡ 0, a point at infinity) is
// assumed away instead of forked; each use is counted in the evidence. Returns true when
// the event was excluded.
func (p *pathRun) genericCoins(event *smt.Term, label string) bool {
	if !p.summ["generic-coins"] || event.IsConst() {
		return false
	}
	p.res.Assumes["coin:"+label]++
	p.addPC(p.ctx.Not(event))
	p.unchecked = true
	return true
}

// searchModel looks for a model of pc ∧ extra by pinning all but one of the integer inputs
// to small distinct values (a few rounds with different choices).
func (p *pathRun) searchModel(extra *smt.Term) (map[string]*big.Int, bool) {
	c := p.ctx
	var vars []*smt.Term
	for _, nd := range p.nondets {
		if nd.t.Op == "var" && nd.t.Sort.K == smt.KInt {
			if lo := p.lowerTab[nd.t]; lo != nil && lo.BitLen() > 16 {
				continue // inputs assumed large (moduli) stay free
			}
			vars = append(vars, nd.t)
		}
	}
	if len(vars) == 0 {
		return nil, false
	}
	small := []int64{1, 2, 3, 5, 7, 11, 13, 17, 19, 23, 29, 31, 37, 41, 43, 47, 53, 59, 61, 67}
	// the large prime moduli seen on this path (group orders): values just below them are the
	// other family of pins (boundary values q-1, q-2, ...)
	var order *big.Int
	seenT := map[*smt.Term]bool{}
	var walk func(t *smt.Term)
	walk = func(t *smt.Term) {
		if order != nil || seenT[t] {
			return
		}
		seenT[t] = true
		if t.Op == "mod" && t.Args[1].IsConst() && t.Args[1].Val.BitLen() > 200 && p.eng.knownPrime(t.Args[1].Val) {
			order = t.Args[1].Val
			return
		}
		for _, a := range t.Args {
			walk(a)
		}
	}
	for _, t := range p.pc {
		walk(t)
	}
	rounds := 6
	if order != nil {
		rounds = 18
	}
	for round := 0; round < rounds; round++ {
		free := round % len(vars)
		var pins []*smt.Term
		for i, v := range vars {
			if i == free {
				continue
			}
			val := big.NewInt(small[(i*3+round*7)%len(small)] + int64(round*71))
			// rounds 6..11: every input just below the group order; rounds 12..17: the reader's
			// coins just below the order, the harness inputs small, hash outputs pinned too
			if round >= 6 && (round < 12 || strings.Contains(v.Name, "#")) {
				val = new(big.Int).Sub(order, val)
			}
			pins = append(pins, c.Eq(v, c.IntC(val)))
		}
		if round >= 12 {
			pinned := map[*smt.Term]bool{}
			for i, ha := range p.hashIntApps {
				if !pinned[ha.out] {
					pinned[ha.out] = true
					pins = append(pins, c.Eq(ha.out, c.IntC64(int64(i+2+round))))
				}
			}
			for i, ha := range p.hashApps {
				if ha.out != nil && ha.out.Sort.K != smt.KInt && !ha.out.IsConst() && !pinned[ha.out] {
					pinned[ha.out] = true
					pins = append(pins, c.Eq(ha.out, c.BVC64(ha.out.Sort.W, uint64(i+2+round))))
				}
			}
		}
		q := c.And(append(pins, extra)...)
		r, m, _ := p.query(q, 4000, true)
		if os.Getenv("GOSYM_TRACE_SEARCH") != "" {
			fmt.Fprintf(os.Stderr, "  [model search round %d: %v]\n", round, r)
		}
		if r == smt.Sat {
			return m, true
		}
	}
	return nil, false
}

// learnBounds records numeral bounds of assumed conditions on terms (so that later
// domain checks against them are closed syntactically instead of by a solver call).
func (p *pathRun) learnBounds(cond *smt.Term) {
	switch cond.Op {
	case "and":
		for _, a := range cond.Args {
			p.learnBounds(a)
		}
	case "ite":
		// Cmp/Sign results compared with constants arrive as ite trees over Boolean constants
		if cond.Args[1].IsFalse() && cond.Args[2].IsTrue() {
			p.learnBounds(p.ctx.Not(cond.Args[0]))
		} else if cond.Args[1].IsTrue() && cond.Args[2].IsFalse() {
			p.learnBounds(cond.Args[0])
		} else if cond.Args[1].IsFalse() {
			// ite(c, false, x) holds: not c, and x
			p.learnBounds(p.ctx.Not(cond.Args[0]))
			p.learnBounds(cond.Args[2])
		}
	case "not":
		in := cond.Args[0]
		if in.Op == "ite" && in.Args[1].IsTrue() {
			// not ite(c, true, x): not c, and not x
			p.learnBounds(p.ctx.Not(in.Args[0]))
			p.learnBounds(p.ctx.Not(in.Args[2]))
		} else if in.Op == "ite" && in.Args[1].IsFalse() && in.Args[2].IsTrue() {
			p.learnBounds(in.Args[0])
		}
		if len(in.Args) == 2 {
			switch in.Op {
			case "<":
				p.learnBounds(p.ctx.Ge(in.Args[0], in.Args[1]))
			case "<=":
				p.learnBounds(p.ctx.Gt(in.Args[0], in.Args[1]))
			case ">=":
				p.learnBounds(p.ctx.Lt(in.Args[0], in.Args[1]))
			case ">":
				p.learnBounds(p.ctx.Le(in.Args[0], in.Args[1]))
			}
		}
	case "<":
		if cond.Args[1].IsConst() {
			p.noteFits(cond.Args[0], cond.Args[1].Val)
		}
		if cond.Args[0].IsConst() {
			p.noteLower(cond.Args[1], new(big.Int).Add(cond.Args[0].Val, big.NewInt(1)))
		}
	case "<=":
		if cond.Args[1].IsConst() {
			p.noteFits(cond.Args[0], new(big.Int).Add(cond.Args[1].Val, big.NewInt(1)))
		}
		if cond.Args[0].IsConst() {
			p.noteLower(cond.Args[1], cond.Args[0].Val)
		}
	case ">=":
		if cond.Args[1].IsConst() {
			p.noteLower(cond.Args[0], cond.Args[1].Val)
		}
	case ">":
		if cond.Args[1].IsConst() {
			p.noteLower(cond.Args[0], new(big.Int).Add(cond.Args[1].Val, big.NewInt(1)))
		}
	}
}

func (p *pathRun) noteLower(t *smt.Term, lo *big.Int) {
	if p.lowerTab == nil {
		p.lowerTab = map[*smt.Term]*big.Int{}
	}
	if old := p.lowerTab[t]; old == nil || old.Cmp(lo) < 0 {
		p.lowerTab[t] = lo
	}
}

// checkFeasible settles a pending feasibility question (after lazy assumptions).
func (p *pathRun) checkFeasible(why string) {
	if !p.unchecked || len(p.trail) < len(p.prefix) {
		return
	}
	if p.feas(nil) == smt.Unsat {
		p.finish("pruned", "assumptions infeasible (found at "+why+")")
	}
	p.unchecked = false
}

func (p *pathRun) modelStrings(m map[string]*big.Int) map[string]string {
	out := map[string]string{}
	for _, nd := range p.nondets {
		if nd.t.Op != "var" {
			continue
		}
		if v, ok := m[nd.t.Name]; ok {
			if nd.t.Sort.K == smt.KBV && false {
				_ = v
			}
			out[nd.name] = v.String()
		}
	}
	return out
}

// assert records an obligation: cond must hold on every feasible extension of this path.
func (p *pathRun) assert(fr *frame, label string, cond *smt.Term) {
	if len(p.trail) < len(p.prefix) {
		// already evaluated by the path this prefix was split from
		if !p.observing {
			p.addPC(cond)
		}
		return
	}
	ob := Obligation{Kind: "assert", Label: label, Site: p.site(fr), Trail: trailString(p.trail)}
	if cond.IsTrue() {
		ob.Status = "discharged"
		ob.Diag = "closed by constant folding"
		p.res.Obligations = append(p.res.Obligations, ob)
		return
	}
	if cond.IsFalse() && p.eng.seenViolation(p.harness, label) >= 3 {
		// concretely false and already reported with models on other paths: no query
		ob.Status = "violated"
		ob.Diag = "concretely false (model omitted: reported with a model on earlier paths)"
		p.res.Obligations = append(p.res.Obligations, ob)
		if !p.observing {
			p.finish("ok", "assertion failed unconditionally")
		}
		return
	}
	t0 := time.Now()
	r, m, d := p.query(p.ctx.Not(cond), p.eng.VerdictMs, true)
	if r == smt.Sat {
		p.eng.noteViolation(p.harness, label)
	}
	switch r {
	case smt.Unsat:
		ob.Status = "discharged"
	case smt.Sat:
		ob.Status = "violated"
		ob.Model = p.modelStrings(m)
	default:
		ob.Status = "inconclusive"
		ob.Diag = "solver: " + d + fmt.Sprintf(" after %v", time.Since(t0).Round(time.Millisecond))
		// the solver could not decide the non-linear query: look for a counterexample with
		// most integer inputs pinned (the remaining query is easy); a hit is a genuine model
		// of the same constraints and is replayed natively like any other
		if rs, ms := p.sliceQuery(p.ctx.Not(cond), p.eng.VerdictMs); rs == smt.Unsat {
			// unsat on a subset of the path condition (the conjuncts sharing variables with the goal)
			ob.Status = "discharged"
			ob.Diag = "unsat on the goal's variable slice of the path condition"
			r = smt.Unsat
		} else if rs == smt.Sat {
			ob.Status = "violated"
			ob.Diag += "; counterexample candidate from the goal's variable slice (validated by native replay only)"
			ob.Model = p.modelStrings(ms)
			r = smt.Sat
		} else if m2, ok := p.searchModel(p.ctx.Not(cond)); ok {
			ob.Status = "violated"
			ob.Diag += "; counterexample found after partial concretisation"
			ob.Model = p.modelStrings(m2)
			r = smt.Sat
		}
	}
	p.res.Obligations = append(p.res.Obligations, ob)
	// continue under the asserted condition so later obligations are independent
	// (an Observe obligation leaves the path unconstrained)
	if r != smt.Unsat && !p.observing {
		p.addPC(cond)
		if cond.IsFalse() {
			p.finish("ok", "assertion failed unconditionally")
		}
		rr, _, _ := p.query(nil, p.eng.FeasMs, false)
		if rr == smt.Unsat {
			p.finish("ok", "path ends at violated assertion")
		}
	}
}

func (p *pathRun) site(fr *frame) string {
	for f := fr; f != nil; f = f.caller {
		if f.cur != nil && f.cur.Pos() != token.NoPos {
			pos := p.eng.prog.Fset.Position(f.cur.Pos())
			return fmt.Sprintf("%s:%d", p.eng.relFile(pos.Filename), pos.Line)
		}
		if f.fn != nil && f.fn.Pos() != token.NoPos && f.caller == nil {
			pos := p.eng.prog.Fset.Position(f.fn.Pos())
			return fmt.Sprintf("%s:%d", p.eng.relFile(pos.Filename), pos.Line)
		}
	}
	return "?"
}

func (p *pathRun) stack(fr *frame) []string {
	var out []string
	for f := fr; f != nil && len(out) < 12; f = f.caller {
		if f.fn != nil {
			out = append(out, f.fn.String())
		}
	}
	return out
}

// targetPanic: the program under test panics here. The path is feasible by
// invariant; ask for a model and end the path.
func (p *pathRun) targetPanic(fr *frame, msg string) {
	p.raise(fr, "panic", msg)
}

func (p *pathRun) raise(fr *frame, kind, msg string) {
	if p.done {
		panic(pathAbort{})
	}
	ob := Obligation{Kind: kind, Label: msg, Site: p.site(fr), Stack: p.stack(fr), Trail: trailString(p.trail)}
	r, m, d := p.query(nil, p.eng.VerdictMs, true)
	switch r {
	case smt.Sat:
		ob.Status = "violated"
		ob.Model = p.modelStrings(m)
	case smt.Unsat:
		// the path was kept on an unknown feasibility answer; it is infeasible after all
		ob.Status = "discharged"
		ob.Diag = "path infeasible"
	default:
		ob.Status = "inconclusive"
		ob.Diag = "solver: " + d
	}
	if ob.Status != "discharged" {
		p.res.Obligations = append(p.res.Obligations, ob)
	}
	p.finish(kind, msg+" at "+ob.Site)
}

func sortedKeys(m map[string]bool) []string {
	var ks []string
	for k := range m {
		ks = append(ks, k)
	}
	sort.Strings(ks)
	return ks
}
