// Package exec is a symbolic executor for Go programs in SSA form.
//
// It started from golang.org/x/tools/go/ssa/interp (BSD licence, The Go
// Authors): boxed values, one frame per call, instruction-by-instruction
// evaluation. On top of that it adds symbolic scalars, path conditions and
// forking by re-execution, intrinsic models for code outside the module under
// test, a deterministic goroutine scheduler and obligations (assertions,
// panics, hangs) that are sent to an SMT solver.
package exec

import (
	"fmt"
	"go/token"
	"go/types"
	"slices"
	"strings"

	"golang.org/x/tools/go/ssa"
)

type continuation int

const (
	kNext continuation = iota
	kReturn
	kJump
)

type methodSet map[string]*ssa.Function

// interpreter is the per-path global state of the interpreted program.
type interpreter struct {
	eng     *Engine
	p       *pathRun
	prog    *ssa.Program
	globals map[*ssa.Global]*value
	sizes   types.Sizes
	inited  map[*ssa.Package]bool
}

type deferred struct {
	fn    value
	args  []value
	instr *ssa.Defer
	tail  *deferred
}

type frame struct {
	i                *interpreter
	caller           *frame
	fn               *ssa.Function
	block, prevBlock *ssa.BasicBlock
	env              map[ssa.Value]value
	locals           []value
	defers           *deferred
	result           value
	cur              ssa.Instruction
	phitemps         []value
	visits           map[*ssa.BasicBlock]int
}

func mustDeref(t types.Type) types.Type {
	if p, ok := t.Underlying().(*types.Pointer); ok {
		return p.Elem()
	}
	panic(fmt.Sprintf("mustDeref: not a pointer: %v", t))
}

func (fr *frame) get(key ssa.Value) value {
	switch key := key.(type) {
	case nil:
		return nil
	case *ssa.Function, *ssa.Builtin:
		return key
	case *ssa.Const:
		return constValue(key)
	case *ssa.Global:
		return fr.i.globalAddr(key)
	}
	if r, ok := fr.env[key]; ok {
		return r
	}
	panic(fmt.Sprintf("get: no value for %T: %v", key, key.Name()))
}

func (i *interpreter) globalAddr(g *ssa.Global) *value {
	if r, ok := i.globals[g]; ok {
		return r
	}
	i.ensureInit(g.Pkg)
	if r, ok := i.globals[g]; ok {
		return r
	}
	cell := zero(mustDeref(g.Type()))
	i.globals[g] = &cell
	return &cell
}

// ensureInit allocates the globals of pkg and, if the package is executed from
// its own SSA (module under test or allow-listed), runs its initialiser.
func (i *interpreter) ensureInit(pkg *ssa.Package) {
	if pkg == nil || i.inited[pkg] {
		return
	}
	i.inited[pkg] = true
	for _, m := range pkg.Members {
		if g, ok := m.(*ssa.Global); ok {
			if _, ok := i.globals[g]; !ok {
				cell := zero(mustDeref(g.Type()))
				if g.String() == "crypto/rand.Reader" {
					var obj value = structure{}
					cell = iface{t: types.NewPointer(pkg.Type("reader").Type()), v: &obj}
				}
				i.globals[g] = &cell
			}
		}
	}
	if i.eng.execPkg(pkg.Pkg.Path()) && !noInitPkgs[pkg.Pkg.Path()] {
		i.eng.build(pkg)
		if init := pkg.Func("init"); init != nil && init.Blocks != nil {
			call(i, nil, token.NoPos, init, nil)
		}
	}
}

// packages executed from SSA whose initialiser is skipped (it needs reflection
// and nothing the executed code depends on)
var noInitPkgs = map[string]bool{"errors": true, "unicode": true}

func (fr *frame) runDefers() {
	for d := fr.defers; d != nil; d = d.tail {
		call(fr.i, fr, d.instr.Pos(), d.fn, d.args)
	}
	fr.defers = nil
}

func lookupMethod(i *interpreter, typ types.Type, meth *types.Func) *ssa.Function {
	return i.prog.LookupMethod(typ, meth.Pkg(), meth.Name())
}

func (fr *frame) nilDeref(what string) {
	fr.i.p.targetPanic(fr, "invalid memory address or nil pointer dereference ("+what+")")
}

func (fr *frame) ptr(v value, what string) *value {
	p, ok := v.(*value)
	if !ok {
		panic(fmt.Sprintf("%s: expected pointer, got %T", what, v))
	}
	if p == nil {
		fr.nilDeref(what)
	}
	return p
}

// concInt returns the concrete int64 of an integer value, concretising a
// symbolic one by forking over its feasible values (bounded).
func (fr *frame) concInt(v value, what string) int64 {
	if s, ok := v.(symInt); ok {
		return fr.i.p.concretize(fr, s, what)
	}
	return asInt64(v)
}

func visitInstr(fr *frame, instr ssa.Instruction) continuation {
	p := fr.i.p
	fr.cur = instr
	switch instr := instr.(type) {
	case *ssa.DebugRef:
		// no-op

	case *ssa.UnOp:
		if p.race != nil && instr.Op == token.MUL {
			if addr, ok := fr.get(instr.X).(*value); ok && addr != nil {
				p.access(fr, addr, false, raceWhat(instr.X))
			}
		}
		fr.env[instr] = unop(fr, instr, fr.get(instr.X))

	case *ssa.BinOp:
		fr.env[instr] = binop(fr, instr.Op, instr.X.Type(), fr.get(instr.X), fr.get(instr.Y))

	case *ssa.Call:
		fn, args := prepareCall(fr, &instr.Call)
		fr.env[instr] = call(fr.i, fr, instr.Pos(), fn, args)
		fr.cur = instr

	case *ssa.ChangeInterface:
		fr.env[instr] = fr.get(instr.X)

	case *ssa.ChangeType:
		fr.env[instr] = fr.get(instr.X)

	case *ssa.Convert:
		fr.env[instr] = conv(fr, instr.Type(), instr.X.Type(), fr.get(instr.X))

	case *ssa.SliceToArrayPointer:
		fr.env[instr] = sliceToArrayPointer(fr, instr.Type(), instr.X.Type(), fr.get(instr.X))

	case *ssa.MakeInterface:
		fr.env[instr] = iface{t: instr.X.Type(), v: fr.get(instr.X)}

	case *ssa.Extract:
		fr.env[instr] = fr.get(instr.Tuple).(tuple)[instr.Index]

	case *ssa.Slice:
		fr.env[instr] = slice(fr, fr.get(instr.X), fr.get(instr.Low), fr.get(instr.High), fr.get(instr.Max))

	case *ssa.Return:
		switch len(instr.Results) {
		case 0:
		case 1:
			fr.result = fr.get(instr.Results[0])
		default:
			var res []value
			for _, r := range instr.Results {
				res = append(res, fr.get(r))
			}
			fr.result = tuple(res)
		}
		fr.block = nil
		return kReturn

	case *ssa.RunDefers:
		fr.runDefers()

	case *ssa.Panic:
		p.targetPanic(fr, "panic: "+panicText(fr.get(instr.X)))

	case *ssa.Send:
		ch, _ := fr.get(instr.Chan).(*channel)
		p.chanSend(fr, ch, fr.get(instr.X))

	case *ssa.Store:
		addr := fr.ptr(fr.get(instr.Addr), "store")
		if p.race != nil {
			p.access(fr, addr, true, raceWhat(instr.Addr))
		}
		store(mustDeref(instr.Addr.Type()), addr, fr.get(instr.Val))

	case *ssa.If:
		succ := 1
		if p.forkValue(fr.get(instr.Cond), "if") {
			succ = 0
		}
		fr.prevBlock, fr.block = fr.block, fr.block.Succs[succ]
		return kJump

	case *ssa.Jump:
		fr.prevBlock, fr.block = fr.block, fr.block.Succs[0]
		return kJump

	case *ssa.Defer:
		fn, args := prepareCall(fr, &instr.Call)
		defers := &fr.defers
		if into := fr.get(instr.DeferStack); into != nil {
			defers = into.(**deferred)
		}
		*defers = &deferred{fn: fn, args: args, instr: instr, tail: *defers}

	case *ssa.Go:
		fn, args := prepareCall(fr, &instr.Call)
		i := fr.i
		pos := instr.Pos()
		p.sched.spawn(func() { call(i, nil, pos, fn, args) })

	case *ssa.MakeChan:
		n := fr.concInt(fr.get(instr.Size), "make chan size")
		fr.env[instr] = &channel{cap: int(n)}

	case *ssa.Alloc:
		var addr *value
		if instr.Heap {
			addr = new(value)
			fr.env[instr] = addr
		} else {
			addr = fr.env[instr].(*value)
		}
		*addr = zero(mustDeref(instr.Type()))

	case *ssa.MakeSlice:
		c := fr.concInt(fr.get(instr.Cap), "make slice cap")
		l := fr.concInt(fr.get(instr.Len), "make slice len")
		if l < 0 || c < l {
			p.targetPanic(fr, "makeslice: len out of range")
		}
		if c > 1<<24 {
			panic(unsupported(fmt.Sprintf("make slice of %d elements", c)))
		}
		sl := make([]value, c)
		tElt := instr.Type().Underlying().(*types.Slice).Elem()
		for i := range sl {
			sl[i] = zero(tElt)
		}
		fr.env[instr] = sl[:l]

	case *ssa.MakeMap:
		fr.env[instr] = makeMap(instr.Type().Underlying().(*types.Map).Key(), 0)

	case *ssa.Range:
		fr.env[instr] = rangeIter(fr.get(instr.X), instr.X.Type())

	case *ssa.Next:
		fr.env[instr] = fr.get(instr.Iter).(iter).next()

	case *ssa.FieldAddr:
		x := fr.ptr(fr.get(instr.X), "field address")
		fr.env[instr] = &(*x).(structure)[instr.Field]

	case *ssa.Field:
		fr.env[instr] = fr.get(instr.X).(structure)[instr.Field]

	case *ssa.IndexAddr:
		x := fr.get(instr.X)
		if ab, ok := x.(*absBytes); ok {
			x = p.materialize(fr, ab)
		}
		switch x := x.(type) {
		case []value:
			idx := fr.index(fr.get(instr.Index), len(x))
			fr.env[instr] = &x[idx]
		case *value: // *array
			if x == nil {
				fr.nilDeref("index of nil array pointer")
			}
			a := (*x).(array)
			idx := fr.index(fr.get(instr.Index), len(a))
			fr.env[instr] = &a[idx]
		default:
			panic(fmt.Sprintf("unexpected x type in IndexAddr: %T", x))
		}

	case *ssa.Index:
		x := fr.get(instr.X)
		switch x := x.(type) {
		case array:
			idx := fr.index(fr.get(instr.Index), len(x))
			fr.env[instr] = x[idx]
		case string:
			idx := fr.index(fr.get(instr.Index), len(x))
			fr.env[instr] = x[idx]
		default:
			panic(fmt.Sprintf("unexpected x type in Index: %T", x))
		}

	case *ssa.Lookup:
		if p.race != nil {
			if m, ok := fr.get(instr.X).(*gomap); ok && m != nil {
				p.access(fr, m, false, "map "+instr.X.Name())
			}
		}
		fr.env[instr] = lookup(fr, instr, fr.get(instr.X), fr.get(instr.Index))

	case *ssa.MapUpdate:
		m := fr.get(instr.Map)
		key := fr.get(instr.Key)
		v := fr.get(instr.Value)
		switch m := m.(type) {
		case *gomap:
			if m == nil {
				p.targetPanic(fr, "assignment to entry in nil map")
			}
			if p.race != nil {
				p.access(fr, m, true, "map "+instr.Map.Name())
			}
			m.insert(fr, key, v)
		default:
			panic(fmt.Sprintf("illegal map type: %T", m))
		}

	case *ssa.TypeAssert:
		fr.env[instr] = typeAssert(fr, instr, fr.get(instr.X).(iface))

	case *ssa.MakeClosure:
		var bindings []value
		for _, binding := range instr.Bindings {
			bindings = append(bindings, fr.get(binding))
		}
		fr.env[instr] = &closure{instr.Fn.(*ssa.Function), bindings}

	case *ssa.Phi:
		panic("unreachable: phi")

	case *ssa.Select:
		fr.env[instr] = doSelect(fr, instr)

	default:
		panic(fmt.Sprintf("unexpected instruction: %T", instr))
	}
	return kNext
}

// index checks and concretises an index into a sequence of length n.
func (fr *frame) index(idx value, n int) int {
	p := fr.i.p
	if s, ok := idx.(symInt); ok {
		c := p.ctx
		w := kindWidth(s.k)
		var oob = c.BVCmp("bvuge", s.t, c.BVC64(w, uint64(n)))
		if kindSigned(s.k) {
			oob = c.Or(c.BVCmp("bvslt", s.t, c.BVC64(w, 0)), c.BVCmp("bvsge", s.t, c.BVC64(w, uint64(n))))
		}
		if p.fork(oob, "index bounds") {
			p.targetPanic(fr, fmt.Sprintf("index out of range [symbolic] with length %d", n))
		}
		return int(p.concretize(fr, s, "index"))
	}
	i := asInt64(idx)
	if i < 0 || i >= int64(n) {
		p.targetPanic(fr, fmt.Sprintf("index out of range [%d] with length %d", i, n))
	}
	return int(i)
}

func panicText(v value) string {
	if itf, ok := v.(iface); ok {
		if s, ok := itf.v.(string); ok {
			return s
		}
		if itf.t != nil {
			return "(" + itf.t.String() + ")"
		}
	}
	return "?"
}

func prepareCall(fr *frame, call *ssa.CallCommon) (fn value, args []value) {
	v := fr.get(call.Value)
	if call.Method == nil {
		fn = v
	} else {
		recv := v.(iface)
		if recv.t == nil {
			fr.i.p.targetPanic(fr, "invalid memory address or nil pointer dereference (method "+call.Method.Name()+" invoked on nil interface)")
		}
		if f := lookupMethod(fr.i, recv.t, call.Method); f == nil {
			panic(fmt.Sprintf("method set for dynamic type %v does not contain %s", recv.t, call.Method))
		} else {
			fn = f
		}
		args = append(args, recv.v)
	}
	for _, arg := range call.Args {
		args = append(args, fr.get(arg))
	}
	return
}

func call(i *interpreter, caller *frame, callpos token.Pos, fn value, args []value) value {
	switch fn := fn.(type) {
	case *ssa.Function:
		if fn == nil {
			i.p.targetPanic(caller, "invalid memory address or nil pointer dereference (call of nil function)")
		}
		return callSSA(i, caller, callpos, fn, args, nil)
	case *closure:
		return callSSA(i, caller, callpos, fn.Fn, args, fn.Env)
	case *ssa.Builtin:
		return callBuiltin(caller, callpos, fn, args)
	}
	panic(fmt.Sprintf("cannot call %T", fn))
}

func fnPkgPath(fn *ssa.Function) string {
	f := fn
	for f.Parent() != nil {
		f = f.Parent()
	}
	if f.Origin() != nil {
		f = f.Origin()
	}
	if f.Pkg != nil {
		return f.Pkg.Pkg.Path()
	}
	if o := f.Object(); o != nil && o.Pkg() != nil {
		return o.Pkg().Path()
	}
	return ""
}

func callSSA(i *interpreter, caller *frame, callpos token.Pos, fn *ssa.Function, args []value, env []value) value {
	p := i.p
	fr := &frame{i: i, caller: caller, fn: fn}
	name := fn.String()
	if fn.Parent() == nil {
		if ext := intrinsics[name]; ext != nil {
			p.res.Intrinsics[name]++
			return ext(fr, args)
		}
		if ext := summaries[name]; ext != nil && !p.noSumm {
			if r := ext(fr, args); r != (declined{}) {
				p.res.Intrinsics["summary:"+name]++
				return r
			}
		}
		if ext := optSummaries[name]; ext != nil && (p.summ[name] || p.summ["ideal-paillier"]) {
			if r := ext(fr, args); r != (declined{}) {
				p.res.Intrinsics["summary:"+name]++
				return r
			}
		}
	}
	pkg := fnPkgPath(fn)
	if fn.Synthetic == "package initializer" && (!i.eng.execPkg(pkg) || noInitPkgs[pkg]) {
		return nil // third-party and modelled packages are not initialised
	}
	if strings.HasPrefix(fn.Name(), "file_") && strings.HasSuffix(fn.Name(), "_init") && i.eng.inModule(pkg) {
		return nil // protobuf-generated registration (reflection); the codec is modelled
	}
	isWrapper := strings.HasPrefix(fn.Synthetic, "wrapper") || strings.HasPrefix(fn.Synthetic, "bound") || strings.HasPrefix(fn.Synthetic, "thunk")
	if !isWrapper && (fn.Synthetic == "" || pkg != "") {
		if ext := pkgIntrinsic(pkg, fn); ext != nil {
			p.res.Intrinsics[name]++
			return ext(fr, args)
		}
		if pkg != "" && !i.eng.execPkg(pkg) {
			panic(unsupported("call to unmodelled function " + name + " [" + fn.Synthetic + "]"))
		}
	}
	if fn.Blocks == nil {
		if fn.Pkg != nil {
			i.eng.build(fn.Pkg)
		} else if o := fn.Origin(); o != nil && o.Pkg != nil {
			i.eng.build(o.Pkg)
		}
		if fn.Blocks == nil {
			panic(unsupported("no code for function: " + name))
		}
	}
	if fn.Pkg != nil {
		i.ensureInit(fn.Pkg)
	}
	if fn.TypeParams().Len() > 0 && len(fn.TypeArgs()) == 0 {
		panic(unsupported("uninstantiated generic function " + name))
	}
	if i.eng.inModule(pkg) {
		p.res.Funcs[name] = true
	}

	p.lastFr = fr
	fr.env = make(map[ssa.Value]value)
	fr.block = fn.Blocks[0]
	fr.locals = make([]value, len(fn.Locals))
	for i, l := range fn.Locals {
		fr.locals[i] = zero(mustDeref(l.Type()))
		fr.env[l] = &fr.locals[i]
	}
	for i, p := range fn.Params {
		fr.env[p] = args[i]
	}
	for i, fv := range fn.FreeVars {
		fr.env[fv] = env[i]
	}
	for fr.block != nil {
		runFrame(fr)
	}
	p.lastFr = caller
	return fr.result
}

func runFrame(fr *frame) {
	p := fr.i.p
	for {
		if fr.visits == nil {
			fr.visits = map[*ssa.BasicBlock]int{}
		}
		fr.visits[fr.block]++
		if p.unwindAssume > 0 && fr.visits[fr.block] > p.unwindAssume && len(fr.block.Preds) > 1 {
			p.res.Assumes["unwinding-assumption"]++
			p.finish("pruned", fmt.Sprintf("unwinding assumption %d in %s", p.unwindAssume, fr.fn))
		}
		if fr.visits[fr.block] > p.eng.MaxUnwind {
			p.raise(fr, "bound", fmt.Sprintf("unwinding bound %d exceeded in %s block %d", p.eng.MaxUnwind, fr.fn, fr.block.Index))
		}
		nonPhis := executePhis(fr)
		for _, instr := range nonPhis {
			p.steps++
			if p.steps > p.eng.MaxSteps {
				p.raise(fr, "bound", "step budget exceeded")
			}
			if visitInstr(fr, instr) == kReturn {
				return
			}
		}
	}
}

func executePhis(fr *frame) []ssa.Instruction {
	firstNonPhi := -1
	for i, instr := range fr.block.Instrs {
		if _, ok := instr.(*ssa.Phi); !ok {
			firstNonPhi = i
			break
		}
	}
	nonPhis := fr.block.Instrs[firstNonPhi:]
	if firstNonPhi > 0 {
		phis := fr.block.Instrs[:firstNonPhi]
		predIndex := slices.Index(fr.block.Preds, fr.prevBlock)
		fr.phitemps = fr.phitemps[:0]
		for _, phi := range phis {
			phi := phi.(*ssa.Phi)
			fr.phitemps = append(fr.phitemps, fr.get(phi.Edges[predIndex]))
		}
		for i, phi := range phis {
			fr.env[phi.(*ssa.Phi)] = fr.phitemps[i]
		}
	}
	return nonPhis
}

func doSelect(fr *frame, instr *ssa.Select) value {
	p := fr.i.p
	type cs struct {
		ch   *channel
		send bool
		v    value
	}
	var cases []cs
	for _, st := range instr.States {
		ch, _ := fr.get(st.Chan).(*channel)
		c := cs{ch: ch, send: st.Dir == types.SendOnly}
		if st.Send != nil {
			c.v = fr.get(st.Send)
		}
		cases = append(cases, c)
	}
	ready := func() int {
		for i, c := range cases {
			if c.ch == nil {
				continue
			}
			if c.send && c.ch.canSend() {
				return i
			}
			if !c.send && c.ch.canRecv() {
				return i
			}
		}
		return -1
	}
	chosen := ready()
	if chosen < 0 && instr.Blocking {
		for _, c := range cases {
			if c.ch != nil && !c.send {
				c.ch.recvW++
			}
		}
		p.sched.block(func() bool { return ready() >= 0 }, "select")
		for _, c := range cases {
			if c.ch != nil && !c.send {
				c.ch.recvW--
			}
		}
		chosen = ready()
	}
	var recv value
	recvOk := false
	if chosen >= 0 {
		c := cases[chosen]
		if c.send {
			p.chanSend(fr, c.ch, c.v)
		} else {
			recv, recvOk = c.ch.doRecv()
			p.hbAcquire(c.ch.lastvc)
		}
	}
	r := tuple{chosen, recvOk}
	for i, st := range instr.States {
		if st.Dir == types.RecvOnly {
			var v value
			if i == chosen && recvOk {
				v = recv
			} else {
				v = zero(st.Chan.Type().Underlying().(*types.Chan).Elem())
			}
			r = append(r, v)
		}
	}
	return r
}

func shortFn(s string) string {
	if i := strings.LastIndex(s, "/"); i >= 0 {
		return s[i+1:]
	}
	return s
}
