package exec

// Insertion-ordered map (deterministic iteration, needed for re-execution) with
// symbolic key equality: looking up a symbolic key forks on equality with each
// stored key.

import (
	"go/types"
)

type gomap struct {
	keyT  types.Type
	keys  []value
	vals  []value
	alive []bool
	n     int
	idx   map[interface{}]int
}

func fastKey(k value) (interface{}, bool) {
	switch k.(type) {
	case string, int, int8, int16, int32, int64, uint, uint8, uint16, uint32, uint64, uintptr, bool, *value:
		return k, true
	}
	return nil, false
}

func makeMap(kt types.Type, reserve int64) *gomap {
	return &gomap{keyT: kt, idx: map[interface{}]int{}}
}

func (m *gomap) find(fr *frame, k value) int {
	if m == nil {
		return -1
	}
	if fk, ok := fastKey(k); ok {
		if i, ok := m.idx[fk]; ok && m.alive[i] {
			return i
		}
		// could still equal a symbolic stored key
		for i, sk := range m.keys {
			if m.alive[i] && isSymScalar(sk) {
				if fr.i.p.fork(fr.i.p.eqTerm(m.keyT, sk, k), "map key equality") {
					return i
				}
			}
		}
		return -1
	}
	sym := containsSym(k)
	for i, sk := range m.keys {
		if !m.alive[i] {
			continue
		}
		if sym || containsSym(sk) {
			if fr.i.p.fork(fr.i.p.eqTerm(m.keyT, sk, k), "map key equality") {
				return i
			}
		} else if equals(m.keyT, sk, k) {
			return i
		}
	}
	return -1
}

func (m *gomap) lookup(fr *frame, k value) (value, bool) {
	i := m.find(fr, k)
	if i < 0 {
		return nil, false
	}
	return m.vals[i], true
}

func (m *gomap) insert(fr *frame, k, v value) {
	if i := m.find(fr, k); i >= 0 {
		m.vals[i] = v
		return
	}
	m.keys = append(m.keys, k)
	m.vals = append(m.vals, v)
	m.alive = append(m.alive, true)
	m.n++
	if fk, ok := fastKey(k); ok {
		m.idx[fk] = len(m.keys) - 1
	}
}

func (m *gomap) delete(fr *frame, k value) {
	if i := m.find(fr, k); i >= 0 {
		m.alive[i] = false
		m.n--
		if fk, ok := fastKey(m.keys[i]); ok {
			delete(m.idx, fk)
		}
	}
}

func (m *gomap) len() int {
	if m == nil {
		return 0
	}
	return m.n
}

type gomapIter struct {
	m *gomap
	i int
	n int
}

func (it *gomapIter) next() tuple {
	for it.m != nil && it.i < it.n && it.i < len(it.m.keys) {
		i := it.i
		it.i++
		if it.m.alive[i] {
			return tuple{true, it.m.keys[i], it.m.vals[i]}
		}
	}
	return tuple{false, nil, nil}
}
