package exec

// L3 summaries (DESIGN §2.1): Paillier as ideal plaintext algebra (its
// correctness, homomorphisms and domain guards are C14's subject) and the MtA
// range proofs as Boolean oracles that accept exactly the proofs produced by the
// honest prover for the same statement (completeness is C10's subject;
// soundness against hostile proofs is an uninterpreted predicate). Enabled per
// harness with zzverifapi.Summarise("ideal-paillier").

import (
	"fmt"
	"go/types"

	"gosym/smt"
)

func ifaceVal(v value) value { return v.(iface).v }

const pailPkg = "github.com/bnb-chain/tss-lib/v2/crypto/paillier"
const mtaPkg = "github.com/bnb-chain/tss-lib/v2/crypto/mta"

type proofRec struct {
	kind string
	stmt []*smt.Term
	wit  *smt.Term // witness x of the with-check variant
}

func (p *pathRun) idealPaillier() bool { return p.summ["ideal-paillier"] }

// pkN reads N from a *paillier.PublicKey (or the embedded one of a *PrivateKey).
func (p *pathRun) pkN(fr *frame, pk value) *smt.Term {
	st := (*fr.ptr(pk, "paillier key")).(structure)
	if inner, ok := st[0].(structure); ok { // PrivateKey{PublicKey{N}, ...}
		st = inner
	}
	return p.bigTerm(fr, st[0])
}

// pct is the ideal ciphertext of plaintext m (canonical mod N) under modulus N.
func (p *pathRun) pct(N, m *smt.Term) *smt.Term {
	c := p.ctx
	ct := c.App("pct", smt.Int, N, m)
	key := fmt.Sprintf("pct:%d", ct.ID)
	if p.counters[key] == 0 {
		p.counters[key] = 1
		N2 := c.Mul(N, N)
		g := p.gcdTerm(ct, N2)
		p.axiom("ideal-ciphertext-range", c.And(c.Gt(ct, c.IntC64(0)), c.Lt(ct, N2), c.Eq(g, c.IntC64(1))))
		p.markNonNeg(ct)
	}
	return ct
}

// knownInDomain: 0 <= m < N for syntactic reasons (m non-negative with a known numeral
// upper bound that does not exceed a known lower bound of N)
func (p *pathRun) knownInDomain(m, N *smt.Term) bool {
	lo := p.lowerTab[N]
	if N.IsConst() {
		lo = N.Val
	}
	if lo == nil {
		return false
	}
	nonneg := p.nonneg[m] || m.Op == "mod" || m.Op == "bv2nat" || (m.IsConst() && m.Val.Sign() >= 0)
	return nonneg && p.knownBelow(m, lo)
}

// idealCt: ct is structurally an ideal ciphertext under N (in (0,N^2) and a unit by axiom)
func (p *pathRun) idealCt(ct, N *smt.Term) bool {
	_, ok := p.plainOf(ct, N)
	return ok
}

func (p *pathRun) plainOf(ct, N *smt.Term) (*smt.Term, bool) {
	if ct.Op == "app" && ct.Name == "pct" && ct.Args[0] == N {
		return ct.Args[1], true
	}
	return nil, false
}

// plainRed is the plaintext of a homomorphic result: reduced mod N, except under
// Summarise("mta-no-wrap"), where the protocol-level harness relies on what C13 decides for
// the real MtA code (with N > q^8 the plaintext a*b + beta' never reaches N) and keeps the
// unreduced integer, so that the congruences mod q stay polynomial identities.
func (p *pathRun) plainRed(m, N *smt.Term) *smt.Term {
	if p.summ["mta-no-wrap"] {
		p.res.Assumes["mta-plaintext-does-not-wrap (C13)"]++
		return m
	}
	return p.ctx.Mod(m, N)
}

func (p *pathRun) drawSync(fr *frame, rd value, n int) {
	// keep the reader in step with the real prover (n draws), values unconstrained
	for i := 0; i < n; i++ {
		p.nextRand(fr, p.readerOf(fr, rd))
	}
}

func (p *pathRun) newProof(fr *frame, kind string, stmt []*smt.Term, wit *smt.Term) *smt.Term {
	c := p.ctx
	id := c.Fresh("proof", smt.Int)
	if p.proofs == nil {
		p.proofs = map[*smt.Term]*proofRec{}
	}
	p.proofs[id] = &proofRec{kind, stmt, wit}
	return id
}

// proofField is the k-th field of the proof object id: a positive opaque integer.
func (p *pathRun) proofField(id *smt.Term, k int) *value {
	c := p.ctx
	f := c.App(fmt.Sprintf("prf_field_%d", k), smt.Int, id)
	key := fmt.Sprintf("pf:%d", f.ID)
	if p.counters[key] == 0 {
		p.counters[key] = 1
		p.axiom("proof-field-positive", c.Gt(f, c.IntC64(0)))
		p.markNonNeg(f)
	}
	return p.newBig(f)
}

func (p *pathRun) proofIDOf(fr *frame, field value) (*smt.Term, bool) {
	ptr, ok := field.(*value)
	if !ok || ptr == nil {
		return nil, false
	}
	b, ok := (*ptr).(bigval)
	if !ok || b.t == nil || b.t.Op != "app" || len(b.t.Args) != 1 || b.t.Name != "prf_field_0" {
		return nil, false
	}
	return b.t.Args[0], true
}

func init() {
	idealErr := func(fr *frame, msg string) value { return fr.i.newError("<" + msg + ">") }

	optSummaries["(*"+pailPkg+".PublicKey).EncryptAndReturnRandomness"] = func(fr *frame, a []value) value {
		p := fr.i.p
		c := p.ctx
		N := p.pkN(fr, a[0])
		m := p.bigTerm(fr, a[2])
		if !p.knownInDomain(m, N) && p.fork(c.Or(c.Lt(m, c.IntC64(0)), c.Ge(m, N)), "paillier plaintext domain") {
			return tuple{(*value)(nil), (*value)(nil), idealErr(fr, "the message is too large or < 0")}
		}
		x := p.nextRand(fr, p.readerOf(fr, a[1]))
		p.addPC(c.And(c.Ge(x, c.IntC64(1)), c.Lt(x, N)))
		return tuple{p.newBig(p.pct(N, m)), p.newBig(x), iface{}}
	}
	optSummaries["(*"+pailPkg+".PublicKey).HomoMult"] = func(fr *frame, a []value) value {
		p := fr.i.p
		c := p.ctx
		N := p.pkN(fr, a[0])
		k := p.bigTerm(fr, a[1])
		ct := p.bigTerm(fr, a[2])
		if !p.knownInDomain(k, N) && p.fork(c.Or(c.Lt(k, c.IntC64(0)), c.Ge(k, N)), "paillier scalar domain") {
			return tuple{(*value)(nil), idealErr(fr, "the message is too large or < 0")}
		}
		N2 := c.Mul(N, N)
		if !p.idealCt(ct, N) && p.fork(c.Or(c.Lt(ct, c.IntC64(0)), c.Ge(ct, N2)), "paillier ciphertext domain") {
			return tuple{(*value)(nil), idealErr(fr, "the message is too large or < 0")}
		}
		m, ok := p.plainOf(ct, N)
		if !ok {
			// a ciphertext that did not come from the ideal Encrypt under this key
			m = c.App("pdec", smt.Int, N, ct)
			p.axiom("ideal-decrypt-range", c.And(c.Ge(m, c.IntC64(0)), c.Lt(m, N)))
		}
		return tuple{p.newBig(p.pct(N, p.plainRed(c.Mul(k, m), N))), iface{}}
	}
	optSummaries["(*"+pailPkg+".PublicKey).HomoAdd"] = func(fr *frame, a []value) value {
		p := fr.i.p
		c := p.ctx
		N := p.pkN(fr, a[0])
		N2 := c.Mul(N, N)
		c1, c2 := p.bigTerm(fr, a[1]), p.bigTerm(fr, a[2])
		for _, ct := range []*smt.Term{c1, c2} {
			if !p.idealCt(ct, N) && p.fork(c.Or(c.Lt(ct, c.IntC64(0)), c.Ge(ct, N2)), "paillier ciphertext domain") {
				return tuple{(*value)(nil), idealErr(fr, "the message is too large or < 0")}
			}
		}
		ms := make([]*smt.Term, 2)
		for i, ct := range []*smt.Term{c1, c2} {
			m, ok := p.plainOf(ct, N)
			if !ok {
				m = c.App("pdec", smt.Int, N, ct)
				p.axiom("ideal-decrypt-range", c.And(c.Ge(m, c.IntC64(0)), c.Lt(m, N)))
			}
			ms[i] = m
		}
		return tuple{p.newBig(p.pct(N, p.plainRed(c.Add(ms[0], ms[1]), N))), iface{}}
	}
	optSummaries["(*"+pailPkg+".PrivateKey).Decrypt"] = func(fr *frame, a []value) value {
		p := fr.i.p
		c := p.ctx
		N := p.pkN(fr, a[0])
		N2 := c.Mul(N, N)
		ct := p.bigTerm(fr, a[1])
		if !p.idealCt(ct, N) && p.fork(c.Or(c.Lt(ct, c.IntC64(0)), c.Ge(ct, N2)), "paillier ciphertext domain") {
			return tuple{(*value)(nil), idealErr(fr, "the message is too large or < 0")}
		}
		if !p.idealCt(ct, N) && p.fork(c.Gt(p.gcdTerm(ct, N2), c.IntC64(1)), "paillier ciphertext unit") {
			return tuple{(*value)(nil), idealErr(fr, "the message is mal-formed")}
		}
		m, ok := p.plainOf(ct, N)
		if !ok {
			m = c.App("pdec", smt.Int, N, ct)
			p.axiom("ideal-decrypt-range", c.And(c.Ge(m, c.IntC64(0)), c.Lt(m, N)))
		}
		return tuple{p.newBig(m), iface{}}
	}

	// ---- MtA proofs as oracles ----
	optSummaries[mtaPkg+".ProveRangeAlice"] = func(fr *frame, a []value) value {
		// ProveRangeAlice(ec, pk, c, NTilde, h1, h2, m, r, rand)
		p := fr.i.p
		for _, k := range []int{1, 2, 3, 4, 5, 6, 7} {
			if ptr, ok := a[k].(*value); ok && ptr == nil {
				return tuple{(*value)(nil), idealErr(fr, "ProveRangeAlice constructor received nil value(s)")}
			}
		}
		p.drawSync(fr, a[8], 4)
		stmt := []*smt.Term{p.pkN(fr, a[1]), p.bigTerm(fr, a[2]), p.bigTerm(fr, a[3]), p.bigTerm(fr, a[4]), p.bigTerm(fr, a[5])}
		id := p.newProof(fr, "alice", stmt, nil)
		res := fr.fn.Signature.Results().At(0).Type()
		st := zero(mustDeref(res)).(structure)
		for k := range st {
			st[k] = p.proofField(id, k)
		}
		var sv value = st
		return tuple{&sv, iface{}}
	}
	optSummaries["(*"+mtaPkg+".RangeProofAlice).Verify"] = func(fr *frame, a []value) value {
		// (pf).Verify(ec, pk, NTilde, h1, h2, c)
		p := fr.i.p
		c := p.ctx
		pfp := a[0].(*value)
		if pfp == nil {
			return false
		}
		for _, k := range []int{2, 3, 4, 5, 6} {
			if ptr, ok := a[k].(*value); ok && ptr == nil {
				return false
			}
		}
		st := (*pfp).(structure)
		for _, f := range st {
			if f.(*value) == nil {
				return false
			}
		}
		stmt := []*smt.Term{p.pkN(fr, a[2]), p.bigTerm(fr, a[6]), p.bigTerm(fr, a[3]), p.bigTerm(fr, a[4]), p.bigTerm(fr, a[5])}
		_ = c
		return p.oracleVerify(fr, "alice", st, stmt, nil, nil)
	}
	optSummaries[mtaPkg+".ProveBobWC"] = func(fr *frame, a []value) value {
		// ProveBobWC(Session, ec, pk, NTilde, h1, h2, c1, c2, x, y, r, X, rand)
		p := fr.i.p
		for _, k := range []int{2, 3, 4, 5, 6, 7, 8, 9, 10} {
			if ptr, ok := a[k].(*value); ok && ptr == nil {
				return tuple{(*value)(nil), idealErr(fr, "ProveBob() received a nil argument")}
			}
		}
		p.drawSync(fr, a[12], 7)
		stmt := []*smt.Term{p.pkN(fr, a[2]), p.bigTerm(fr, a[3]), p.bigTerm(fr, a[4]), p.bigTerm(fr, a[5]), p.bigTerm(fr, a[6]), p.bigTerm(fr, a[7])}
		stmt = append(stmt, p.sessionTerms(a[0])...)
		x := p.bigTerm(fr, a[8])
		id := p.newProof(fr, "bob", stmt, x)
		res := fr.fn.Signature.Results().At(0).Type() // *ProofBobWC
		wc := zero(mustDeref(res)).(structure)
		pbT := mustDeref(mustDeref(res).Underlying().(*types.Struct).Field(0).Type())
		pb := zero(pbT).(structure)
		for k := range pb {
			pb[k] = p.proofField(id, k)
		}
		var pbv value = pb
		wc[0] = &pbv
		if Xp := a[11].(*value); Xp != nil {
			// U: an honest commitment point alpha*G (alpha one of the prover's coins)
			co := p.curveOf(ifaceVal(a[1]))
			u := p.ctx.Fresh("bobU", smt.Int)
			p.addPC(p.ctx.And(p.ctx.Gt(u, p.ctx.IntC64(0)), p.ctx.Lt(u, p.ctx.IntC(co.N))))
			ux, uy := p.coordTerms(co, u, p.ctx.IntC64(0))
			var pt value = structure{a[1], array{p.newBig(ux), p.newBig(uy)}}
			wc[1] = &pt
		}
		var wv value = wc
		return tuple{&wv, iface{}}
	}
	optSummaries["(*"+mtaPkg+".ProofBobWC).Verify"] = func(fr *frame, a []value) value {
		// (pf).Verify(Session, ec, pk, NTilde, h1, h2, c1, c2, X)
		p := fr.i.p
		for _, k := range []int{3, 4, 5, 6, 7, 8} {
			if ptr, ok := a[k].(*value); ok && ptr == nil {
				return false
			}
		}
		wc := (*fr.ptr(a[0], "ProofBobWC.Verify")).(structure)
		pbp := wc[0].(*value)
		if pbp == nil {
			fr.nilDeref("ProofBobWC with nil ProofBob")
		}
		pb := (*pbp).(structure)
		stmt := []*smt.Term{p.pkN(fr, a[3]), p.bigTerm(fr, a[4]), p.bigTerm(fr, a[5]), p.bigTerm(fr, a[6]), p.bigTerm(fr, a[7]), p.bigTerm(fr, a[8])}
		stmt = append(stmt, p.sessionTerms(a[1])...)
		var Xd *smt.Term
		if Xp := a[9].(*value); Xp != nil {
			co := p.curveOf(ifaceVal(a[2]))
			coords := (*Xp).(structure)[1].(array)
			d, _, ok := p.pointOf(fr, co, p.bigAt(fr, coords[0]), p.bigAt(fr, coords[1]))
			if !ok {
				return false
			}
			Xd = d
			if wc[1].(*value) == nil {
				fr.nilDeref("ProofBobWC.U is nil")
			}
		}
		var N *smt.Term
		if Xd != nil {
			N = p.ctx.IntC(p.curveOf(ifaceVal(a[2])).N)
		}
		return p.oracleVerify(fr, "bob", pb, stmt, Xd, N)
	}
}

// sessionTerms turns a session byte string into terms for statement comparison.
func (p *pathRun) sessionTerms(s value) []*smt.Term {
	c := p.ctx
	var out []*smt.Term
	for _, part := range absParts(s) {
		switch pt := part.(type) {
		case *absBytes:
			out = append(out, pt.t)
		case []value:
			var acc *smt.Term
			for _, e := range pt {
				t := p.bvOf(e)
				if acc == nil {
					acc = t
				} else {
					acc = c.Concat(acc, t)
				}
			}
			// length-tagged so that different splits differ
			out = append(out, c.Add(c.Mul(c.BV2Nat(acc), c.IntC64(1024)), c.IntC64(int64(len(pt)))))
		}
	}
	return out
}

// oracleVerify: an honest proof object (structurally produced by the summary prover)
// verifies iff the verifier's statement equals the prover's (and, with check, the
// public point is witness*G); anything else is an uninterpreted verdict.
func (p *pathRun) oracleVerify(fr *frame, kind string, fields structure, stmt []*smt.Term, Xd, N *smt.Term) value {
	c := p.ctx
	id, ok := p.proofIDOf(fr, fields[0])
	var rec *proofRec
	if ok {
		rec = p.proofs[id]
		// every field must be the honest one
		for k, f := range fields {
			ft := p.bigTerm(fr, f)
			if !(ft.Op == "app" && ft.Name == fmt.Sprintf("prf_field_%d", k) && ft.Args[0] == id) {
				rec = nil
			}
		}
	}
	if rec == nil || rec.kind != kind || len(rec.stmt) != len(stmt) {
		// hostile or mismatching proof: soundness is an idealised assumption — the verdict is free
		args := []*smt.Term{}
		for _, f := range fields {
			args = append(args, p.bigTerm(fr, f))
		}
		args = append(args, stmt...)
		return normBool(c.App(fmt.Sprintf("oracle_%s_%d", kind, len(args)), smt.Bool, args...))
	}
	conds := []*smt.Term{}
	for i := range stmt {
		conds = append(conds, c.Eq(rec.stmt[i], stmt[i]))
	}
	if Xd != nil && rec.wit != nil {
		conds = append(conds, p.congruent(Xd, rec.wit, N))
	}
	return normBool(c.And(conds...))
}
