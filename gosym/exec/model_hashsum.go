package exec

// Summaries of the module's integer hash functions for symbolic arguments:
// H(tag, [ints]) as an uninterpreted function (justified by C16, which checks
// that the real framing code is injective on the argument sequence). With all
// arguments concrete the real code runs.

import (
	"fmt"
	"math/big"
	"os"
	"go/types"

	"github.com/btcsuite/btcd/btcec/v2"
	"github.com/decred/dcrd/dcrec/edwards/v2"

	"gosym/smt"
)

// declined is returned by a summary that does not apply (the real code runs).
type declined struct{}

func init() {
	common := "github.com/bnb-chain/tss-lib/v2/common."
	summaries[common+"SHA512_256i"] = func(fr *frame, a []value) value {
		return fr.i.p.hashInts(fr, "Hi", nil, false, a[0].([]value), false)
	}
	summaries[common+"SHA512_256i_TAGGED"] = func(fr *frame, a []value) value {
		return fr.i.p.hashInts(fr, "Ht", a[0], true, a[1].([]value), true)
	}
	// NonEmptyBytes on x.Bytes() of a symbolic honest value: the encoding is empty only
	// if the value is 0 — a coin event excluded (and counted) here. Hostile fields are
	// concrete-length byte slices and run the real code.
	summaries[common+"NonEmptyBytes"] = func(fr *frame, a []value) value {
		ab, ok := a[0].(*absBytes)
		if !ok {
			return declined{}
		}
		p := fr.i.p
		p.assume("honest-field-encoding-nonempty", p.ctx.Not(p.ctx.Eq(ab.t, p.ctx.IntC64(0))))
		return true
	}
	// AppendBigIntToBytesSlice(commonBytes, appended) on an abstract prefix (a symbolic ssid)
	summaries[common+"AppendBigIntToBytesSlice"] = func(fr *frame, a []value) value {
		if !isAbsBytes(a[0]) {
			return declined{}
		}
		p := fr.i.p
		return catAbs(a[0], p.bigBytes(fr, p.bigAt(fr, a[1])))
	}
	summaries[common+"SHA512_256iOne"] = func(fr *frame, a []value) value {
		if a[0].(*value) == nil {
			return (*value)(nil)
		}
		return fr.i.p.hashInts(fr, "H1", nil, false, []value{a[0]}, false)
	}
}

func init() {
	// paillier.GenerateXs(m, k, N, ecdsaPub): m hash-derived elements of Z_N^* (deterministic
	// in its arguments). Summary: x_i = Hxs_i(k, N, X, Y) with 1 <= x_i < N, gcd(x_i, N) = 1.
	// (The real code does not terminate for N whose bit length is not just below a multiple
	// of 256; callers check N.BitLen() == 2048 first. The harnesses assume that range.)
	summaries["github.com/bnb-chain/tss-lib/v2/crypto/paillier.GenerateXs"] = func(fr *frame, a []value) value {
		p := fr.i.p
		c := p.ctx
		m := int(asInt64(a[0]))
		k, N := p.bigAt(fr, a[1]), p.bigAt(fr, a[2])
		pt := fr.ptr(a[3], "GenerateXs ecdsaPub")
		coords := (*pt).(structure)[1].(array)
		X, Y := p.bigAt(fr, coords[0]), p.bigAt(fr, coords[1])
		if k.c != nil && N.c != nil && X.c != nil && Y.c != nil {
			return declined{}
		}
		out := make([]value, m)
		for i := 0; i < m; i++ {
			x := c.App(fmt.Sprintf("Hxs_%d", i), smt.Int, p.bt(k), p.bt(N), p.bt(X), p.bt(Y))
			g := p.gcdTerm(x, p.bt(N))
			p.axiom("generatexs-range", c.And(c.Ge(x, c.IntC64(1)), c.Lt(x, p.bt(N)), c.Eq(g, c.IntC64(1))))
			p.markNonNeg(x)
			out[i] = p.newBig(x)
		}
		return out
	}
}

func (p *pathRun) hashInts(fr *frame, fam string, tag value, hasTag bool, ins []value, nilIsZero bool) value {
	c := p.ctx
	if len(ins) == 0 {
		return (*value)(nil)
	}
	sym := false
	var args []*smt.Term
	name := fmt.Sprintf("%s_%d", fam, len(ins))
	if hasTag {
		switch tg := tag.(type) {
		case []value:
			if bs, ok := concBytes(tg); ok {
				name += fmt.Sprintf("_tag%x", bs)
			} else {
				sym = true
				name += fmt.Sprintf("_symtag%d", len(tg))
				var acc *smt.Term
				for _, e := range tg {
					t := p.bvOf(e)
					if acc == nil {
						acc = t
					} else {
						acc = c.Concat(acc, t)
					}
				}
				args = append(args, c.BV2Nat(acc))
			}
		case *absBytes:
			sym = true
			name += "_abstag"
			args = append(args, tg.t)
		case *absCat:
			sym = true
			name += "_cattag"
			for _, part := range tg.parts {
				switch pt := part.(type) {
				case *absBytes:
					name += "A"
					args = append(args, pt.t)
				case []value:
					if bs, ok := concBytes(pt); ok {
						name += fmt.Sprintf("C%x", bs)
					} else {
						name += fmt.Sprintf("B%d", len(pt))
						var acc *smt.Term
						for _, e := range pt {
							t := p.bvOf(e)
							if acc == nil {
								acc = t
							} else {
								acc = c.Concat(acc, t)
							}
						}
						args = append(args, c.BV2Nat(acc))
					}
				}
			}
		default:
			panic(fmt.Sprintf("hash tag of %T", tag))
		}
	}
	for _, in := range ins {
		ptr := in.(*value)
		if ptr == nil {
			if nilIsZero {
				args = append(args, c.IntC64(0))
				continue
			}
			fr.nilDeref("nil *big.Int hash input")
		}
		b := (*ptr).(bigval)
		if b.t != nil {
			sym = true
		}
		// the real code hashes |x| (Bytes drops the sign)
		args = append(args, p.absTerm(p.bt(b)))
	}
	if !sym {
		return declined{}
	}
	out := c.App(name, smt.Int, args...)
	if os.Getenv("GOSYM_TRACE_HASH") != "" {
		s := name + "("
		for _, a := range args {
			as := a.String()
			if len(as) > 60 {
				as = as[:60] + fmt.Sprintf("..#%d", a.ID)
			}
			s += as + ", "
		}
		p.note("hash %s) -> #%d", s, out.ID)
	}
	key := fmt.Sprintf("hi:%d", out.ID)
	if p.counters[key] == 0 {
		p.counters[key] = 1
		p.axiom("hash-output-range", c.And(c.Ge(out, c.IntC64(0)), c.Lt(out, c.IntC(pow2(256)))))
		// coin excluded: a SHA-512/256 output equal to 0 (probability 2^-256)
		p.res.Assumes["hash-output-nonzero"]++
		p.addPC(c.Gt(out, c.IntC64(0)))
	}
	p.markNonNeg(out)
	if p.summ["hash-injective"] {
		// collision resistance of the framed hash (C16): equal outputs have equal argument lists
		seen := false
		for _, prev := range p.hashIntApps {
			if prev.out == out {
				seen = true
				break
			}
			if prev.name == name && len(prev.args) == len(args) {
				var eqs []*smt.Term
				for i := range args {
					eqs = append(eqs, c.Eq(prev.args[i], args[i]))
					p.pointEqLemma(prev.args[i], args[i])
				}
				p.axiom("hash-summary-injective", c.Implies(c.Eq(prev.out, out), c.And(eqs...)))
			} else {
				p.axiom("hash-summary-injective", c.Not(c.Eq(prev.out, out)))
			}
		}
		_ = seen
	}
	if p.summ["challenge-independent"] {
		// random-oracle coin exclusion for Fiat-Shamir challenges (C12): two hash applications with
		// different argument lists do not collide modulo a group order either (probability 2^-128
		// per pair: the outputs are below 2^256 and the orders above 2^252)
		fresh := true
		for _, prev := range p.hashIntApps {
			if prev.out == out {
				fresh = false
				break
			}
		}
		if fresh {
			// ... and a challenge is not 0 modulo a group order (probability 2^-252)
			p.res.Assumes["challenge-nonzero-mod-order"]++
			for _, N := range []*big.Int{secpN, edN} {
				p.addPC(c.Not(c.Eq(c.Mod(out, c.IntC(N)), c.IntC64(0))))
			}
		}
		for _, prev := range p.hashIntApps {
			if prev.out == out {
				break
			}
			var same *smt.Term = c.False()
			if prev.name == name && len(prev.args) == len(args) {
				var eqs []*smt.Term
				for i := range args {
					a, b := prev.args[i], args[i]
					if a.Op == "bv2nat" && b.Op == "bv2nat" && a.Args[0].Sort.W == b.Args[0].Sort.W {
						// symbolic tags: compare the bytes in the bit-vector theory
						eqs = append(eqs, c.Eq(a.Args[0], b.Args[0]))
						continue
					}
					eqs = append(eqs, c.Eq(a, b))
					p.pointEqLemma(a, b)
				}
				same = c.And(eqs...)
			}
			for _, N := range []*big.Int{secpN, edN} {
				Nt := c.IntC(N)
				p.axiom("challenge-independent", c.Implies(c.Eq(c.Mod(prev.out, Nt), c.Mod(out, Nt)), same))
				// the same fact in the canonical forms the congruence reasoning produces
				p.axiom("challenge-independent", c.Implies(p.congruent(prev.out, out, Nt), same))
				p.axiom("challenge-independent", c.Implies(p.congruent(out, prev.out, Nt), same))
			}
		}
	}
	p.hashIntApps = append(p.hashIntApps, hashIntApp{name, args, out})
	return p.newBig(out)
}

type hashIntApp struct {
	name string
	args []*smt.Term
	out  *smt.Term
}

var _ = types.Int

var secpN = btcec.S256().Params().N
var edN = edwards.Edwards().Params().N

