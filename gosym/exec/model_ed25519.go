package exec

// Model of the low-level Ed25519 code used by eddsa/signing: the
// agl/ed25519/edwards25519 group and scalar functions, the module's byte-level
// helpers in eddsa/signing/utils.go (summarised; their real code is checked at
// the byte level by the C02 byte-layer harnesses), dcrd's edwards.Verify and
// the standard library's crypto/ed25519.Verify (the independent verifier of the
// C02 oracle) as the RFC 8032 equation over the group model.

import (
	"fmt"
	"go/types"
	"math/big"

	"gosym/smt"
)

// geGhost is stored in X[0] of an ExtendedGroupElement value: the group element it denotes.
type geGhost struct {
	d, tau *smt.Term
}

// feGhost is stored in slot 0 of a FieldElement value.
type feGhost struct{ t *smt.Term }

const aglPkg ="github.com/agl/ed25519/edwards25519"
const edSignPkg = "github.com/bnb-chain/tss-lib/v2/eddsa/signing"

func (p *pathRun) edCurve(fr *frame) *curveObj {
	return p.curveOf(fr.i.curve("ed25519"))
}

// leBytesToInt: little-endian byte values -> Int term (and the BV term when symbolic)
func (p *pathRun) leBytesToInt(bs []value) *smt.Term {
	c := p.ctx
	// the bytes of one big-endian value (a hash output) read little-endian: an opaque
	// function of that value (keeps a 64-way byte shuffle out of the queries)
	if n := len(bs); n > 1 {
		var T *smt.Term
		ok := true
		for i, b := range bs {
			s, isSym := b.(symInt)
			if !isSym || s.t.Op != "extract" || s.t.Aux[1] != 8*(n-1-i) || s.t.Aux[0] != 8*(n-1-i)+7 || s.t.Args[0].Sort.W != 8*n {
				ok = false
				break
			}
			if T == nil {
				T = s.t.Args[0]
			} else if T != s.t.Args[0] {
				ok = false
				break
			}
		}
		if ok && T != nil {
			r := c.App(fmt.Sprintf("le_of_be_%d", n), smt.Int, T)
			key := fmt.Sprintf("lebe:%d", r.ID)
			if p.counters[key] == 0 {
				p.counters[key] = 1
				p.axiom("byte-reversal-range", c.And(c.Ge(r, c.IntC64(0)), c.Lt(r, c.IntC(pow2(uint(8*n))))))
			}
			return r
		}
	}
	var acc *smt.Term
	for i := len(bs) - 1; i >= 0; i-- {
		t := p.bvOf(bs[i])
		if acc == nil {
			acc = t
		} else {
			acc = c.Concat(acc, t)
		}
	}
	return p.unmod(c.BV2Nat(acc))
}

// unmod drops a reduction modulo 2^w from a value known to be below 2^w (the value
// was cut into w/8 bytes and is being re-assembled).
func (p *pathRun) unmod(r *smt.Term) *smt.Term {
	if r.Op == "mod" && r.Args[1].IsConst() {
		if p.fitsTab[r.Args[0]] != nil && p.fitsTab[r.Args[0]].Cmp(r.Args[1].Val) <= 0 {
			return r.Args[0]
		}
		if p.knownBelow(r.Args[0], r.Args[1].Val) {
			return r.Args[0]
		}
	}
	return r
}

func (p *pathRun) noteFits(t *smt.Term, bound *big.Int) {
	if p.fitsTab == nil {
		p.fitsTab = map[*smt.Term]*big.Int{}
	}
	if old := p.fitsTab[t]; old == nil || bound.Cmp(old) < 0 {
		p.fitsTab[t] = bound
	}
}

// intToLEBytes writes the low 8*n bits of t little-endian into n byte values.
func (p *pathRun) intToLEBytes(t *smt.Term, n int) []value {
	c := p.ctx
	out := make([]value, n)
	bits := p.lowBits(t, 8*n)
	for i := 0; i < n; i++ {
		out[i] = normInt(types.Uint8, c.Extract(8*i+7, 8*i, bits))
	}
	return out
}

// knownBelow: t < bound holds for syntactic reasons (canonical residues, bit-vector
// values, curve coordinates, hash outputs).
func (p *pathRun) knownBelow(t *smt.Term, bound *big.Int) bool {
	if b := p.fitsTab[t]; b != nil && b.Cmp(bound) <= 0 {
		return true
	}
	switch {
	case t.IsConst():
		return t.Val.Cmp(bound) < 0
	case t.Op == "mod" && t.Args[1].IsConst() && t.Args[1].Val.Sign() > 0:
		return t.Args[1].Val.Cmp(bound) <= 0
	case t.Op == "bv2nat":
		return pow2(uint(t.Args[0].Sort.W)).Cmp(bound) <= 0
	case t.Op == "app" && (t.Name == "X_ed25519" || t.Name == "Y_ed25519"):
		return bound.BitLen() > 255 // below the field prime 2^255 - 19
	case t.Op == "app" && len(t.Name) > 2 && (t.Name[:2] == "X_" || t.Name[:2] == "Y_"):
		return bound.BitLen() > 256
	case t.Op == "+" && len(t.Args) == 2:
		// a value plus one of two constants
		for i := 0; i < 2; i++ {
			it, other := t.Args[i], t.Args[1-i]
			if it.Op == "ite" && it.Args[1].IsConst() && it.Args[2].IsConst() {
				hi := it.Args[1].Val
				if it.Args[2].Val.Cmp(hi) > 0 {
					hi = it.Args[2].Val
				}
				rest := new(big.Int).Sub(bound, hi)
				return rest.Sign() > 0 && p.knownBelow(other, rest)
			}
		}
	case t.Op == "app" && len(t.Name) > 2 && (t.Name[:2] == "Hi" || t.Name[:2] == "Ht" || t.Name[:2] == "H1"):
		return bound.BitLen() > 256
	case t.Op == "ite":
		return p.knownBelow(t.Args[1], bound) && p.knownBelow(t.Args[2], bound)
	}
	return false
}

func arrOf(v value) array {
	return (*v.(*value)).(array)
}

// encPointBV is the RFC 8032 encoding of the point with coordinates (x, y) as a 256-bit vector
// (little-endian y, top bit = parity of x).
func (p *pathRun) encPointBV(x, y, d, tau *smt.Term) *smt.Term {
	c := p.ctx
	odd := c.Eq(c.Mod(x, c.IntC64(2)), c.IntC64(1))
	var enc *smt.Term
	if p.knownBelow(y, pow2(255)) {
		// y < 2^255 so the top bit is clear: or == add, and the encoding stays an integer term
		enc = c.Int2BV(256, c.Add(y, c.Ite(odd, c.IntC(pow2(255)), c.IntC64(0))))
	} else {
		yb := p.lowBits(y, 256)
		top := c.Ite(odd, c.BVC(256, pow2(255)), c.BVC64(256, 0))
		enc = c.BVBin("bvor", yb, top)
	}
	if p.encTab == nil {
		p.encTab = map[*smt.Term]geGhost{}
	}
	if d != nil {
		p.encTab[enc] = geGhost{d, tau}
	}
	return enc
}

func (p *pathRun) bvToLEBytes(bv *smt.Term, n int) []value {
	c := p.ctx
	out := make([]value, n)
	for i := 0; i < n; i++ {
		out[i] = normInt(types.Uint8, c.Extract(8*i+7, 8*i, bv))
	}
	return out
}

// leBytesToBV re-assembles a little-endian byte array into one bit-vector term.
func (p *pathRun) leBytesToBV(bs []value) *smt.Term {
	c := p.ctx
	var acc *smt.Term
	for i := len(bs) - 1; i >= 0; i-- {
		t := p.bvOf(bs[i])
		if acc == nil {
			acc = t
		} else {
			acc = c.Concat(acc, t)
		}
	}
	return acc
}

func (p *pathRun) ghostOf(ge value) (geGhost, bool) {
	st, ok := ge.(structure)
	if !ok || len(st) != 4 {
		return geGhost{}, false
	}
	x, ok := st[0].(array)
	if !ok || len(x) == 0 {
		return geGhost{}, false
	}
	g, ok := x[0].(geGhost)
	return g, ok
}

func (p *pathRun) mkGE(fr *frame, t types.Type, g geGhost) value {
	st := zero(t).(structure)
	st[0].(array)[0] = g
	return st
}

func init() {
	// ---- module helpers (eddsa/signing/utils.go), summarised for symbolic arguments ----
	summaries[edSignPkg+".bigIntToEncodedBytes"] = func(fr *frame, a []value) value {
		p := fr.i.p
		c := p.ctx
		ptr := a[0].(*value)
		if ptr == nil {
			return declined{}
		}
		b := (*ptr).(bigval)
		if b.c != nil {
			return declined{}
		}
		t := p.absTerm(b.t)
		// the real code keeps the 32 most significant bytes of longer encodings: outside the model
		if !p.knownBelow(t, pow2(256)) && p.fork(c.Ge(t, c.IntC(pow2(256))), "bigIntToEncodedBytes overflow") {
			panic(unsupported("bigIntToEncodedBytes of a value >= 2^256"))
		}
		p.noteFits(t, pow2(256))
		var arr value = array(p.intToLEBytes(t, 32))
		return &arr
	}
	summaries[edSignPkg+".ecPointToEncodedBytes"] = func(fr *frame, a []value) value {
		p := fr.i.p
		x, y := p.bigAt(fr, a[0]), p.bigAt(fr, a[1])
		if x.c != nil && y.c != nil {
			return declined{}
		}
		co := p.edCurve(fr)
		d, tau, ok := p.pointOf(fr, co, x, y)
		if !ok {
			d, tau = nil, nil
		}
		enc := p.encPointBV(p.bt(x), p.bt(y), d, tau)
		var arr value = array(p.bvToLEBytes(enc, 32))
		return &arr
	}
	summaries[edSignPkg+".ecPointToExtendedElement"] = func(fr *frame, a []value) value {
		p := fr.i.p
		x, y := p.bigAt(fr, a[1]), p.bigAt(fr, a[2])
		co := p.edCurve(fr)
		// the real code draws the projective factor z from the reader: keep the reader in step
		c := p.ctx
		z := p.nextRand(fr, p.readerOf(fr, a[3]))
		p.addPC(c.Lt(z, c.IntC(co.N)))
		d, tau, ok := p.pointOf(fr, co, x, y)
		if !ok {
			panic(unsupported("ecPointToExtendedElement of coordinates not known to be on the curve"))
		}
		return p.mkGE(fr, fr.fn.Signature.Results().At(0).Type(), geGhost{d, tau})
	}
	summaries[edSignPkg+".addExtendedElements"] = func(fr *frame, a []value) value {
		p := fr.i.p
		c := p.ctx
		g1, ok1 := p.ghostOf(a[0])
		g2, ok2 := p.ghostOf(a[1])
		if !ok1 || !ok2 {
			panic(unsupported("addExtendedElements on an element without a model ghost"))
		}
		co := p.edCurve(fr)
		d := p.canonMod(c.Add(g1.d, g2.d), c.IntC(co.N))
		tau := c.Mod(c.Add(g1.tau, g2.tau), c.IntC64(8))
		return p.mkGE(fr, fr.fn.Signature.Results().At(0).Type(), geGhost{d, tau})
	}

	// ---- agl/ed25519/edwards25519 ----
	intrinsics[aglPkg+".GeScalarMultBase"] = func(fr *frame, a []value) value {
		p := fr.i.p
		c := p.ctx
		co := p.edCurve(fr)
		k := p.leBytesToInt(arrOf(a[1]))
		d := p.canonMod(k, c.IntC(co.N))
		hp := fr.ptr(a[0], "GeScalarMultBase")
		*hp = p.mkGE(fr, mustDeref(fr.fn.Signature.Params().At(0).Type()), geGhost{d, c.IntC64(0)})
		return nil
	}
	intrinsics["(*"+aglPkg+".ExtendedGroupElement).ToBytes"] = func(fr *frame, a []value) value {
		p := fr.i.p
		hp := fr.ptr(a[0], "ToBytes")
		g, ok := p.ghostOf(*hp)
		if !ok {
			panic(unsupported("ExtendedGroupElement.ToBytes on an element without a model ghost"))
		}
		co := p.edCurve(fr)
		x, y := p.coordTerms(co, g.d, g.tau)
		enc := p.encPointBV(x, y, g.d, g.tau)
		out := arrOf(a[1])
		copy(out, p.bvToLEBytes(enc, 32))
		return nil
	}
	intrinsics[aglPkg+".ScReduce"] = func(fr *frame, a []value) value {
		p := fr.i.p
		c := p.ctx
		co := p.edCurve(fr)
		v := p.leBytesToInt(arrOf(a[1]))
		r := c.Mod(v, c.IntC(co.N))
		copy(arrOf(a[0]), p.intToLEBytes(r, 32))
		return nil
	}
	intrinsics[aglPkg+".ScMulAdd"] = func(fr *frame, a []value) value {
		p := fr.i.p
		c := p.ctx
		co := p.edCurve(fr)
		x, y, z := p.leBytesToInt(arrOf(a[1])), p.leBytesToInt(arrOf(a[2])), p.leBytesToInt(arrOf(a[3]))
		r := p.canonMod(c.Add(c.Mul(x, y), z), c.IntC(co.N))
		copy(arrOf(a[0]), p.intToLEBytes(r, 32))
		return nil
	}

	// field elements (only what ecPointToEncodedBytes needs when it runs from its real code):
	// a FieldElement value carries the integer it denotes in slot 0
	intrinsics[aglPkg+".FeFromBytes"] = func(fr *frame, a []value) value {
		p := fr.i.p
		c := p.ctx
		v := p.leBytesToInt(arrOf(a[1]))
		// bit 255 of the input is ignored
		v = c.Mod(v, c.IntC(pow2(255)))
		dst := arrOf(a[0])
		dst[0] = feGhost{v}
		return nil
	}
	intrinsics[aglPkg+".FeIsNegative"] = func(fr *frame, a []value) value {
		p := fr.i.p
		c := p.ctx
		g, ok := arrOf(a[0])[0].(feGhost)
		if !ok {
			panic(unsupported("FeIsNegative on a field element without a model value"))
		}
		P := new(big.Int).Sub(pow2(255), big.NewInt(19))
		// lemma instance: the parity of a bit-vector's value is its lowest bit
		for u := g.t; ; {
			if u.Op == "bv2nat" {
				B := u.Args[0]
				p.axiom("bv-parity", c.Eq(c.Eq(c.Mod(u, c.IntC64(2)), c.IntC64(1)), c.Eq(c.Extract(0, 0, B), c.BVC64(1, 1))))
				break
			}
			if u.Op == "mod" {
				u = u.Args[0]
				continue
			}
			break
		}
		odd := c.Eq(c.Mod(c.Mod(g.t, c.IntC(P)), c.IntC64(2)), c.IntC64(1))
		// v < 2^255 < 2p and p is odd: parity(v mod p) = lowbit(v) xor (v >= p); when v is the
		// value of a bit-vector its low bit is read off directly (keeps mod-p out of the query)
		{
			u := g.t
			if u.Op == "mod" && u.Args[1].IsConst() && u.Args[1].Val.Cmp(pow2(255)) == 0 {
				u = u.Args[0]
			}
			if u.Op == "bv2nat" {
				low := c.Eq(c.Extract(0, 0, u.Args[0]), c.BVC64(1, 1))
				geP := c.Ge(g.t, c.IntC(P))
				odd = c.Not(c.Eq(low, geP)) // xor
			}
		}
		return symInt{types.Uint8, c.Ite(odd, c.BVC64(8, 1), c.BVC64(8, 0))}
	}

	// ---- verifiers: RFC 8032 over the group model ----
	// dcrd edwards.Verify(pub *PublicKey, hash []byte, r, s *big.Int) bool
	intrinsics["github.com/decred/dcrd/dcrec/edwards/v2.Verify"] = func(fr *frame, a []value) value {
		p := fr.i.p
		c := p.ctx
		co := p.edCurve(fr)
		pk := (*fr.ptr(a[0], "edwards.Verify pub")).(structure)
		X, Y := p.bigAt(fr, pk[1]), p.bigAt(fr, pk[2])
		dA, tA, ok := p.pointOf(fr, co, X, Y)
		if !ok {
			panic(unsupported("edwards.Verify with a public key not known to be on the curve"))
		}
		r := p.bigTerm(fr, a[2]) // the integer whose LE bytes are enc(R)
		s := p.bigTerm(fr, a[3])
		rbv := p.lowBits(r, 256)
		g, ok := p.encLookup(rbv)
		if !ok {
			panic(unsupported("edwards.Verify: r is not structurally the encoding of a known point"))
		}
		encA := p.encPointBV(p.bt(X), p.bt(Y), dA, tA)
		h := p.edChallenge(fr, p.bvToLEBytes(rbv, 32), p.bvToLEBytes(encA, 32), a[1])
		N := c.IntC(co.N)
		// the agl verifier is lax about S: it only requires the top three bits of the last byte
		// to be clear (S < 2^253), not S < L; the strict check is crypto/ed25519's (below)
		okS := c.And(c.Ge(s, c.IntC64(0)), c.Lt(s, c.IntC(pow2(253))))
		eqD := p.congruent(s, c.Add(g.d, c.Mul(h, dA)), N)
		eqT := c.Eq(c.Mod(c.Add(g.tau, c.Mul(h, tA)), c.IntC64(8)), c.IntC64(0))
		return normBool(c.And(okS, eqD, eqT))
	}
	// crypto/ed25519.Verify(publicKey PublicKey, message, sig []byte) bool — the independent verifier
	intrinsics["crypto/ed25519.Verify"] = func(fr *frame, a []value) value {
		p := fr.i.p
		c := p.ctx
		co := p.edCurve(fr)
		pub, ok1 := a[0].([]value)
		sig, ok2 := a[2].([]value)
		if !ok1 || !ok2 {
			panic(unsupported("ed25519.Verify with abstract key or signature bytes"))
		}
		if len(pub) != 32 {
			p.targetPanic(fr.caller, "ed25519: bad public key length")
		}
		if len(sig) != 64 {
			return false
		}
		gA, okA := p.encLookup(p.leBytesToBV(pub))
		gR, okR := p.encLookup(p.leBytesToBV(sig[:32]))
		if !okA || !okR {
			panic(unsupported(fmt.Sprintf("ed25519.Verify: key or R is not structurally the encoding of a known point (key %v: %.120s; R %v: %.120s)", okA, p.leBytesToBV(pub), okR, p.leBytesToBV(sig[:32]))))
		}
		s := p.leBytesToInt(sig[32:])
		h := p.edChallenge(fr, sig[:32], pub, a[1])
		N := c.IntC(co.N)
		okS := c.Lt(s, N)
		eqD := p.congruent(s, c.Add(gR.d, c.Mul(h, gA.d)), N)
		eqT := c.Eq(c.Mod(c.Add(gR.tau, c.Mul(h, gA.tau)), c.IntC64(8)), c.IntC64(0))
		return normBool(c.And(okS, eqD, eqT))
	}
}

// encLookup finds the group element of a 32-byte point encoding: a symbolic encoding built by
// encPointBV on this path, or a CONCRETE encoding of a concrete point whose group element is
// known on this path (k*B computed with a concrete k, the base point, the identity).
func (p *pathRun) encLookup(bv *smt.Term) (geGhost, bool) {
	if g, ok := p.encTab[bv]; ok {
		return g, true
	}
	if !bv.IsConst() {
		return geGhost{}, false
	}
	y := new(big.Int).And(bv.Val, new(big.Int).Sub(pow2(255), big.NewInt(1)))
	sign := bv.Val.Bit(255)
	for _, q := range p.concPts {
		if q.curve == "ed25519" && q.y.Cmp(y) == 0 && q.x.Bit(0) == sign {
			return geGhost{q.d, q.tau}, true
		}
	}
	return geGhost{}, false
}

// edChallenge = SHA-512(enc(R) || enc(A) || M) as a little-endian integer mod q, built with
// the same hash model as the code under test (so identical inputs give the identical term).
func (p *pathRun) edChallenge(fr *frame, encR, encA []value, msg value) *smt.Term {
	c := p.ctx
	h := &hashObj{name: "sha512", size: 64}
	h.write(fr, append([]value{}, encR...))
	h.write(fr, append([]value{}, encA...))
	h.write(fr, msg)
	d := h.sum(fr)
	v := p.leBytesToInt(d)
	return c.Mod(v, c.IntC(p.edCurve(fr).N))
}

var _ = fmt.Sprintf
var _ = big.NewInt
