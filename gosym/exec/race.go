package exec

// Happens-before analysis over the goroutines of the target program (C09).
//
// Enabled by Summarise("hb-race"). Every interpreted goroutine carries a vector
// clock; go statements, mutexes, RW mutexes, wait groups, Once, channels and atomics
// create the happens-before edges of the Go memory model. Every load and store of a
// heap cell (the *value the SSA instruction dereferences) and every map operation is
// checked against the previous accesses of that cell: two accesses by different
// goroutines, at least one a write, not ordered by happens-before, are a data race —
// in EVERY schedule that performs both accesses, not only in the interleaving the
// cooperative scheduler happens to run (the analysis is predictive in that sense).
// Granularity: one cell per SSA address (a struct field, a slice element, a variable,
// a map as a whole); writes inside math/big objects made by intrinsics are not tracked.

import (
	"fmt"
	"go/types"

	"golang.org/x/tools/go/ssa"

	"gosym/smt"
)

type vclock []int

func (v vclock) at(i int) int {
	if i < len(v) {
		return v[i]
	}
	return 0
}

func (v vclock) copy() vclock { return append(vclock(nil), v...) }

func vcJoin(a, b vclock) vclock {
	if len(b) > len(a) {
		a = append(a, make(vclock, len(b)-len(a))...)
	}
	for i, x := range b {
		if x > a[i] {
			a[i] = x
		}
	}
	return a
}

func (v vclock) tick(i int) vclock {
	if i >= len(v) {
		v = append(v, make(vclock, i+1-len(v))...)
	}
	v[i]++
	return v
}

type epoch struct {
	gid, clk int
	site     string
}

type shadow struct {
	w     epoch
	hasW  bool
	reads []epoch
}

type raceState struct {
	cells    map[interface{}]*shadow
	reported map[string]bool
}

func (p *pathRun) raceOn() bool { return p.race != nil }

// acquire / release on a synchronisation object's clock
func (p *pathRun) hbRelease(obj *vclock) {
	if p.race == nil {
		return
	}
	g := p.sched.cur
	*obj = vcJoin(*obj, g.vc)
	g.vc = g.vc.tick(g.id)
}

func (p *pathRun) hbReleaseStore(obj *vclock) {
	if p.race == nil {
		return
	}
	g := p.sched.cur
	*obj = g.vc.copy()
	g.vc = g.vc.tick(g.id)
}

func (p *pathRun) hbAcquire(obj vclock) {
	if p.race == nil {
		return
	}
	g := p.sched.cur
	g.vc = vcJoin(g.vc, obj)
}

// access checks and records one access of the cell key by the running goroutine.
func (p *pathRun) access(fr *frame, key interface{}, write bool, what string) {
	rs := p.race
	if rs == nil || key == nil || p.draining {
		return
	}
	g := p.sched.cur
	sh := rs.cells[key]
	if sh == nil {
		sh = &shadow{}
		rs.cells[key] = sh
	}
	site := p.site(fr)
	clk := g.vc.at(g.id)
	ordered := func(e epoch) bool { return e.gid == g.id || e.clk <= g.vc.at(e.gid) }
	if sh.hasW && !ordered(sh.w) {
		kind := "read"
		if write {
			kind = "write"
		}
		p.reportRace(fr, fmt.Sprintf("%s %s at %s races with write at %s", kind, what, site, sh.w.site), sh.w.gid, g.id)
	}
	if write {
		for _, r := range sh.reads {
			if !ordered(r) {
				p.reportRace(fr, fmt.Sprintf("write %s at %s races with read at %s", what, site, r.site), r.gid, g.id)
			}
		}
		sh.w, sh.hasW = epoch{g.id, clk, site}, true
		sh.reads = sh.reads[:0]
		return
	}
	for i, r := range sh.reads {
		if r.gid == g.id {
			sh.reads[i] = epoch{g.id, clk, site}
			return
		}
	}
	sh.reads = append(sh.reads, epoch{g.id, clk, site})
}

func (p *pathRun) reportRace(fr *frame, label string, g1, g2 int) {
	rs := p.race
	if rs.reported[label] {
		return
	}
	rs.reported[label] = true
	ob := Obligation{Kind: "race", Label: label, Site: p.site(fr), Stack: p.stack(fr), Trail: trailString(p.trail)}
	r, m, d := p.query(nil, p.eng.VerdictMs, true)
	switch r {
	case smt.Sat:
		ob.Status = "violated"
		ob.Model = p.modelStrings(m)
		ob.Diag = fmt.Sprintf("unordered by happens-before: goroutines g%d and g%d", g1, g2)
	case smt.Unsat:
		return // the path is infeasible after all
	default:
		ob.Status = "inconclusive"
		ob.Diag = "solver: " + d
	}
	p.res.Obligations = append(p.res.Obligations, ob)
}

// raceWhat names the cell an SSA address value denotes (for the report).
func raceWhat(v ssa.Value) string {
	switch a := v.(type) {
	case *ssa.FieldAddr:
		st := mustDeref(a.X.Type()).Underlying().(*types.Struct)
		return fmt.Sprintf("of field %s.%s", mustDeref(a.X.Type()).String(), st.Field(a.Field).Name())
	case *ssa.IndexAddr:
		return "of an element of " + a.X.Type().String()
	case *ssa.Global:
		return "of global " + a.Name()
	case *ssa.Alloc:
		return "of variable " + a.Comment
	case *ssa.FreeVar:
		return "of captured variable " + a.Name()
	}
	return "of " + v.Name()
}
