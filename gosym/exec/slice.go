package exec

// Cone-of-influence slicing of the path condition for verdict queries the solver could not
// decide on the whole path condition.
//
// The conjuncts of the path condition are grouped by the input variables they mention;
// the slice of a goal is the closure of the conjuncts sharing a variable with it.
//   - slice ∧ goal unsat  ⇒  pc ∧ goal unsat (fewer constraints): a sound discharge.
//   - slice ∧ goal sat: the model is completed with a model of the remaining conjuncts
//     when the solver finds one. Uninterpreted functions are not treated as connecting
//     symbols, so the two partial models may interpret one differently: such a model is a
//     CANDIDATE only, and like every counterexample it counts only if it replays natively.

import (
	"math/big"

	"gosym/smt"
)

func (p *pathRun) sliceQuery(goal *smt.Term, timeoutMs int) (smt.Result, map[string]*big.Int) {
	varsOf := func(t *smt.Term) []*smt.Term { return smt.VarsIn([]*smt.Term{t}) }
	inSlice := make([]bool, len(p.pc))
	have := map[*smt.Term]bool{}
	for _, v := range varsOf(goal) {
		have[v] = true
	}
	if len(have) == 0 {
		return smt.Unknown, nil
	}
	pcVars := make([][]*smt.Term, len(p.pc))
	for i, c := range p.pc {
		pcVars[i] = varsOf(c)
	}
	for changed := true; changed; {
		changed = false
		for i := range p.pc {
			if inSlice[i] {
				continue
			}
			hit := false
			for _, v := range pcVars[i] {
				if have[v] {
					hit = true
					break
				}
			}
			if hit {
				inSlice[i] = true
				changed = true
				for _, v := range pcVars[i] {
					have[v] = true
				}
			}
		}
	}
	var slice, rest []*smt.Term
	for i, c := range p.pc {
		if inSlice[i] {
			slice = append(slice, c)
		} else if len(pcVars[i]) > 0 {
			rest = append(rest, c)
		}
	}
	if len(rest) == 0 {
		return smt.Unknown, nil // nothing to cut
	}
	run := func(as []*smt.Term) (smt.Result, map[string]*big.Int) {
		script := p.ctx.Script(as)
		var names []string
		for _, v := range smt.VarsIn(as) {
			names = append(names, v.Name)
		}
		p.res.Queries++
		r, m, _ := p.solver.Check(script, timeoutMs, names)
		return r, m
	}
	r, m := run(append(append([]*smt.Term{}, slice...), goal))
	p.res.Lemmas["verdict-on-variable-slice"]++
	if r != smt.Sat {
		return r, nil
	}
	if r2, m2 := run(rest); r2 == smt.Sat {
		for k, v := range m2 {
			if _, ok := m[k]; !ok {
				m[k] = v
			}
		}
	}
	return smt.Sat, m
}
