package exec

import "gosym/smt"

// pointRec records a coordinate pair known to be a curve point with discrete log d.
type pointRec struct {
	curve string
	x, y  *smt.Term
	d     *smt.Term
	tau   *smt.Term
}
