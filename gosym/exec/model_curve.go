package exec

// Elliptic-curve model: the group, not the field (DESIGN §3.4).
// secp256k1 ≅ Z_q (identity = the non-point (0,0)); edwards25519 ≅ Z_q × Z_8
// (identity = (0,1)). Coordinates of a point with discrete log d (and torsion
// component tau) are the uninterpreted X_c(d,tau), Y_c(d,tau). All-concrete
// operations are evaluated with the real libraries.

import (
	"crypto/elliptic"
	"fmt"
	"go/types"
	"math/big"

	"github.com/btcsuite/btcd/btcec/v2"
	"github.com/decred/dcrd/dcrec/edwards/v2"

	"gosym/smt"
)

type curveObj struct {
	name   string
	real   elliptic.Curve
	N, P   *big.Int
	cof    int64
	typ    types.Type // dynamic type of the interface value
	params *value
}

// pointRec records a coordinate pair known to be a curve point.
type pointRec struct {
	curve string
	x, y  *smt.Term
	d     *smt.Term
	tau   *smt.Term
}

const (
	secpRecv = "(*github.com/decred/dcrd/dcrec/secp256k1/v4.KoblitzCurve)"
	edRecv   = "(*github.com/decred/dcrd/dcrec/edwards/v2.TwistedEdwardsCurve)"
)

func (i *interpreter) curve(name string) value {
	p := i.p
	key := "curve:" + name
	if v, ok := p.ghost[key]; ok {
		return v
	}
	var co *curveObj
	switch name {
	case "secp256k1":
		sp := i.eng.byPath["github.com/decred/dcrd/dcrec/secp256k1/v4"]
		if sp == nil {
			panic(unsupported("secp256k1 package not loaded"))
		}
		rc := btcec.S256()
		co = &curveObj{name: name, real: rc, N: rc.Params().N, P: rc.Params().P, cof: 1, typ: types.NewPointer(sp.Type("KoblitzCurve").Type())}
	case "ed25519":
		ep := i.eng.byPath["github.com/decred/dcrd/dcrec/edwards/v2"]
		if ep == nil {
			panic(unsupported("edwards package not loaded"))
		}
		rc := edwards.Edwards()
		co = &curveObj{name: name, real: rc, N: rc.Params().N, P: rc.Params().P, cof: 8, typ: types.NewPointer(ep.Type("TwistedEdwardsCurve").Type())}
	}
	// the pointee has the real struct layout (tss-lib reads the embedded
	// *elliptic.CurveParams statically); field 0 is the parameter block, the last
	// slot carries the model object
	rp := co.real.Params()
	var ps value = structure{
		newBigC(rp.P), newBigC(rp.N), newBigC(rp.B), newBigC(rp.Gx), newBigC(rp.Gy), rp.BitSize, rp.Name,
	}
	co.params = &ps
	st := zero(mustDeref(co.typ)).(structure)
	st[0] = co.params
	var cv value = st
	ptr := &cv
	p.ghost[key] = ptr
	if p.curveTab == nil {
		p.curveTab = map[*value]*curveObj{}
	}
	p.curveTab[ptr] = co
	return ptr
}

func (p *pathRun) curveOf(v value) *curveObj {
	co := p.curveTab[v.(*value)]
	if co == nil {
		panic(unsupported("curve value is not a modelled curve"))
	}
	return co
}

func init() {
	intrinsics["github.com/btcsuite/btcd/btcec/v2.S256"] = func(fr *frame, a []value) value { return fr.i.curve("secp256k1") }
	intrinsics["github.com/decred/dcrd/dcrec/secp256k1/v4.S256"] = func(fr *frame, a []value) value { return fr.i.curve("secp256k1") }
	intrinsics["github.com/decred/dcrd/dcrec/edwards/v2.Edwards"] = func(fr *frame, a []value) value { return fr.i.curve("ed25519") }
	intrinsics["(*crypto/elliptic.CurveParams).Params"] = func(fr *frame, a []value) value { return a[0] }
	intrinsics["(github.com/decred/dcrd/dcrec/edwards/v2.TwistedEdwardsCurve).Params"] = func(fr *frame, a []value) value {
		return a[0].(structure)[0]
	}
	for _, recv := range []string{secpRecv, edRecv} {
		intrinsics[recv+".Params"] = curveParams
		intrinsics[recv+".IsOnCurve"] = curveIsOnCurve
		intrinsics[recv+".Add"] = curveAdd
		intrinsics[recv+".Double"] = func(fr *frame, a []value) value {
			return curveAdd(fr, []value{a[0], a[1], a[2], a[1], a[2]})
		}
		intrinsics[recv+".ScalarMult"] = curveScalarMult
		intrinsics[recv+".ScalarBaseMult"] = curveScalarBaseMult
	}
}

func curveParams(fr *frame, a []value) value {
	return fr.i.p.curveOf(a[0]).params
}

// ---- point terms ----

func (p *pathRun) coordTerms(co *curveObj, d, tau *smt.Term) (x, y *smt.Term) {
	c := p.ctx
	x = c.App("X_"+co.name, smt.Int, d, tau)
	y = c.App("Y_"+co.name, smt.Int, d, tau)
	key := fmt.Sprintf("pt:%s:%d:%d", co.name, d.ID, tau.ID)
	if p.counters[key] == 0 {
		p.counters[key] = 1
		P := c.IntC(co.P)
		p.axiom("point-coord-range", c.And(c.Ge(x, c.IntC64(0)), c.Lt(x, P), c.Ge(y, c.IntC64(0)), c.Lt(y, P)))
		if co.name == "secp256k1" {
			// no finite point of secp256k1 has x = 0 and y = 0 (0 is not a cube-free root: y^2 = 7)
			p.axiom("point-not-origin", c.Not(c.And(c.Eq(x, c.IntC64(0)), c.Eq(y, c.IntC64(0)))))
			// ... and none has x = 0 (7 is not a square mod p) or y = 0 (the group has odd order)
			p.axiom("point-no-zero-coordinate", c.Implies(c.Not(c.Eq(c.Mod(d, c.IntC(co.N)), c.IntC64(0))), c.And(c.Gt(x, c.IntC64(0)), c.Gt(y, c.IntC64(0)))))
		}
	}
	return
}

// mkPoint returns coordinate values (as *big.Int objects) for the group element (d, tau).
func (p *pathRun) mkPoint(fr *frame, co *curveObj, d, tau *smt.Term) (value, value) {
	c := p.ctx
	if d.IsConst() && tau.IsConst() {
		if d.Val.Sign() == 0 && tau.Val.Sign() == 0 {
			if co.name == "secp256k1" {
				return newBigC(big.NewInt(0)), newBigC(big.NewInt(0))
			}
			return newBigC(big.NewInt(0)), newBigC(big.NewInt(1))
		}
		if tau.Val.Sign() == 0 {
			x, y := co.real.ScalarBaseMult(d.Val.Bytes())
			p.regConcPt(co, x, y, d, tau)
			return newBigC(x), newBigC(y)
		}
		if co.name == "ed25519" && d.Val.Sign() == 0 {
			// the points of order 2 and 4 have known coordinates (see pointOf)
			P := co.real.Params().P
			pm1 := new(big.Int).Sub(P, big.NewInt(1))
			r := new(big.Int).ModSqrt(pm1, P)
			switch tau.Val.Int64() {
			case 4:
				return newBigC(big.NewInt(0)), newBigC(pm1)
			case 2:
				if r != nil {
					return newBigC(r), newBigC(big.NewInt(0))
				}
			case 6:
				if r != nil {
					return newBigC(new(big.Int).Sub(P, r)), newBigC(big.NewInt(0))
				}
			}
		}
	}
	if co.cof > 1 {
		// edwards25519: the identity (0,1) is an ordinary curve point; no case split,
		// its coordinates are tied to (d,tau) = (0,0) by an axiom in both directions
		x, y := p.coordTerms(co, d, tau)
		key := fmt.Sprintf("edid:%d:%d", d.ID, tau.ID)
		if p.counters[key] == 0 {
			p.counters[key] = 1
			isId := c.And(c.Eq(d, c.IntC64(0)), c.Eq(tau, c.IntC64(0)))
			p.axiom("ed-identity-coords", c.Eq(isId, c.And(c.Eq(x, c.IntC64(0)), c.Eq(y, c.IntC64(1)))))
		}
		return p.newBig(x), p.newBig(y)
	}
	// identity is a fork (secp: the coordinates are the non-point (0,0))
	dz := c.Eq(d, c.IntC64(0))
	if d.Op == "mod" && d.Args[1].IsConst() {
		// d is a canonical residue: d = 0 iff its argument is ≡ 0 (normalised, with the
		// zero-divisor lemma for the prime group order)
		cg := p.congruent(d, c.IntC64(0), d.Args[1])
		p.axiom("residue-zero", c.Eq(dz, cg))
		dz = cg
	}
	isId := c.And(dz, c.Eq(tau, c.IntC64(0)))
	if p.genericCoins(isId, "computed-point-not-identity") {
		// all-honest run: a computed point equal to the identity is a coin event (excluded, counted)
	} else if p.fork(isId, "point is identity") {
		if co.name == "secp256k1" {
			return newBigC(big.NewInt(0)), newBigC(big.NewInt(0))
		}
		return newBigC(big.NewInt(0)), newBigC(big.NewInt(1))
	}
	x, y := p.coordTerms(co, d, tau)
	if co.name == "secp256k1" {
		// coin excluded (counted): the x-coordinate of a point computed from symbolic scalars
		// is >= the group order or 0 (probability < 2^-127); hostile points registered by
		// IsOnCurve are not covered by this assumption
		key := fmt.Sprintf("xgen:%d", x.ID)
		if p.counters[key] == 0 {
			p.counters[key] = 1
			p.res.Assumes["x-coordinate-below-order-and-nonzero"]++
			p.addPC(c.And(c.Gt(x, c.IntC64(0)), c.Lt(x, c.IntC(co.N))))
			p.noteFits(x, co.N)
		}
	}
	return p.newBig(x), p.newBig(y)
}

// pointOf recovers (d, tau) for coordinate values. ok=false: not known to be on the curve.
func (p *pathRun) pointOf(fr *frame, co *curveObj, xv, yv bigval) (d, tau *smt.Term, ok bool) {
	c := p.ctx
	zero := c.IntC64(0)
	if xv.c != nil && yv.c != nil {
		// concrete coordinates
		if co.name == "secp256k1" && xv.c.Sign() == 0 && yv.c.Sign() == 0 {
			return zero, zero, true
		}
		if co.name == "ed25519" && xv.c.Sign() == 0 && yv.c.Cmp(big.NewInt(1)) == 0 {
			return zero, zero, true
		}
		rp := co.real.Params()
		if xv.c.Cmp(rp.Gx) == 0 && yv.c.Cmp(rp.Gy) == 0 {
			return c.IntC64(1), zero, true
		}
		if co.name == "ed25519" {
			// the points of order 2 and 4 (multiples 4, 2, 6 of a generator of the order-8 subgroup)
			pm1 := new(big.Int).Sub(rp.P, big.NewInt(1))
			if xv.c.Sign() == 0 && yv.c.Cmp(pm1) == 0 {
				return zero, c.IntC64(4), true
			}
			if yv.c.Sign() == 0 {
				if r := new(big.Int).ModSqrt(pm1, rp.P); r != nil {
					if xv.c.Cmp(r) == 0 {
						return zero, c.IntC64(2), true
					}
					if xv.c.Cmp(new(big.Int).Sub(rp.P, r)) == 0 {
						return zero, c.IntC64(6), true
					}
				}
			}
		}
		if xv.c.Sign() < 0 || yv.c.Sign() < 0 || !co.real.IsOnCurve(xv.c, yv.c) {
			return nil, nil, false
		}
		key := fmt.Sprintf("cpt:%s:%s:%s", co.name, xv.c.String(), yv.c.String())
		if v, ok := p.ghost[key]; ok {
			pr := v.(*pointRec)
			return pr.d, pr.tau, true
		}
		dl := c.Fresh("dlog", smt.Int)
		tl := zero
		rng := []*smt.Term{c.Ge(dl, zero), c.Lt(dl, c.IntC(co.N))}
		if co.cof > 1 {
			tl = c.Fresh("tors", smt.Int)
			rng = append(rng, c.Ge(tl, zero), c.Lt(tl, c.IntC64(co.cof)))
		}
		x, y := p.coordTerms(co, dl, tl)
		p.axiom("concrete-point-dlog", c.And(append(rng, c.Eq(x, c.IntC(xv.c)), c.Eq(y, c.IntC(yv.c)))...))
		p.ghost[key] = &pointRec{co.name, x, y, dl, tl}
		p.regConcPt(co, xv.c, yv.c, dl, tl)
		return dl, tl, true
	}
	xt, yt := p.bt(xv), p.bt(yv)
	if xt.Op == "app" && yt.Op == "app" && xt.Name == "X_"+co.name && yt.Name == "Y_"+co.name &&
		xt.Args[0] == yt.Args[0] && xt.Args[1] == yt.Args[1] {
		return xt.Args[0], xt.Args[1], true
	}
	for _, pr := range p.points {
		if pr.curve == co.name && pr.x == xt && pr.y == yt {
			return pr.d, pr.tau, true
		}
	}
	return nil, nil, false
}

func curveIsOnCurve(fr *frame, a []value) value {
	p := fr.i.p
	c := p.ctx
	co := fr.i.p.curveOf(a[0])
	xp, yp := a[1].(*value), a[2].(*value)
	xv, yv := p.bigAt(fr, a[1]), p.bigAt(fr, a[2])
	if xv.c != nil && yv.c != nil {
		if xv.c.Sign() < 0 || yv.c.Sign() < 0 {
			// btcec accepts negative coordinates whose absolute value is on the curve:
			// excluded from the model (DESIGN §3.4)
			panic(unsupported("IsOnCurve with negative concrete coordinate"))
		}
		return co.real.IsOnCurve(xv.c, yv.c)
	}
	if _, _, ok := p.pointOf(fr, co, xv, yv); ok {
		// structurally a curve point; the secp identity (0,0) is a concrete pair handled above
		return true
	}
	xt, yt := p.bt(xv), p.bt(yv)
	// negative coordinates are outside the model
	if p.fork(c.Or(c.Lt(xt, c.IntC64(0)), c.Lt(yt, c.IntC64(0))), "IsOnCurve negative coordinate") {
		panic(unsupported("IsOnCurve with negative symbolic coordinate"))
	}
	on := c.App("OnCurve_"+co.name, smt.Bool, xt, yt)
	P := c.IntC(co.P)
	// coordinates >= P are rejected by both libraries
	p.axiom("oncurve-range", c.Implies(on, c.And(c.Lt(xt, P), c.Lt(yt, P))))
	if co.name == "secp256k1" {
		p.axiom("oncurve-origin", c.Implies(on, c.Not(c.And(c.Eq(xt, c.IntC64(0)), c.Eq(yt, c.IntC64(0))))))
	}
	if !p.fork(on, "IsOnCurve") {
		return false
	}
	// on the curve: every curve point is a group element (d, tau)
	zero := c.IntC64(0)
	d := c.Fresh("dlog", smt.Int)
	tau := zero
	rng := []*smt.Term{c.Ge(d, zero), c.Lt(d, c.IntC(co.N))}
	if co.cof > 1 {
		tau = c.Fresh("tors", smt.Int)
		rng = append(rng, c.Ge(tau, zero), c.Lt(tau, c.IntC64(co.cof)))
	} else {
		rng = append(rng, c.Gt(d, zero))
	}
	var X, Y *smt.Term
	if co.cof > 1 {
		// the identity (0,1) has concrete coordinates; keep d,tau possibly zero but tie coordinates
		X, Y = p.coordTerms(co, d, tau)
		isId := c.And(c.Eq(d, zero), c.Eq(tau, zero))
		p.axiom("ed-identity-coords", c.Implies(isId, c.And(c.Eq(X, zero), c.Eq(Y, c.IntC64(1)))))
	} else {
		X, Y = p.coordTerms(co, d, tau)
	}
	p.axiom("oncurve-dlog", c.And(append(rng, c.Eq(xt, X), c.Eq(yt, Y))...))
	// re-express the caller's coordinate objects structurally (same values under the path condition)
	*xp = bigval{t: X}
	*yp = bigval{t: Y}
	p.points = append(p.points, &pointRec{co.name, xt, yt, d, tau})
	return true
}

func (p *pathRun) havocPoint(co *curveObj) (value, value) {
	c := p.ctx
	x := c.Fresh("offcurve_x", smt.Int)
	y := c.Fresh("offcurve_y", smt.Int)
	P := c.IntC(co.P)
	p.axiom("havoc-point-range", c.And(c.Ge(x, c.IntC64(0)), c.Lt(x, P), c.Ge(y, c.IntC64(0)), c.Lt(y, P)))
	return p.newBig(x), p.newBig(y)
}

func curveAdd(fr *frame, a []value) value {
	p := fr.i.p
	c := p.ctx
	co := fr.i.p.curveOf(a[0])
	x1, y1, x2, y2 := p.bigAt(fr, a[1]), p.bigAt(fr, a[2]), p.bigAt(fr, a[3]), p.bigAt(fr, a[4])
	if x1.c != nil && y1.c != nil && x2.c != nil && y2.c != nil {
		x, y := co.real.Add(x1.c, y1.c, x2.c, y2.c)
		return tuple{newBigC(x), newBigC(y)}
	}
	d1, t1, ok1 := p.pointOf(fr, co, x1, y1)
	d2, t2, ok2 := p.pointOf(fr, co, x2, y2)
	if !ok1 || !ok2 {
		x, y := p.havocPoint(co)
		return tuple{x, y}
	}
	d := p.canonMod(c.Add(d1, d2), c.IntC(co.N))
	tau := c.IntC64(0)
	if co.cof > 1 {
		tau = c.Mod(c.Add(t1, t2), c.IntC64(co.cof))
	}
	x, y := p.mkPoint(fr, co, d, tau)
	return tuple{x, y}
}

// scalarOf returns the integer value of a big-endian scalar byte string.
func (p *pathRun) scalarOf(fr *frame, k value) *smt.Term {
	return p.bt(p.fromBytes(fr, k))
}

func curveScalarMult(fr *frame, a []value) value {
	p := fr.i.p
	c := p.ctx
	co := fr.i.p.curveOf(a[0])
	x1, y1 := p.bigAt(fr, a[1]), p.bigAt(fr, a[2])
	k := p.scalarOf(fr, a[3])
	if x1.c != nil && y1.c != nil && k.IsConst() {
		x, y := co.real.ScalarMult(x1.c, y1.c, k.Val.Bytes())
		return tuple{newBigC(x), newBigC(y)}
	}
	d1, t1, ok := p.pointOf(fr, co, x1, y1)
	if !ok {
		x, y := p.havocPoint(co)
		return tuple{x, y}
	}
	d := p.canonMod(c.Mul(d1, k), c.IntC(co.N))
	tau := c.IntC64(0)
	if co.cof > 1 {
		tau = c.Mod(c.Mul(t1, k), c.IntC64(co.cof))
	}
	x, y := p.mkPoint(fr, co, d, tau)
	return tuple{x, y}
}

func curveScalarBaseMult(fr *frame, a []value) value {
	p := fr.i.p
	c := p.ctx
	co := fr.i.p.curveOf(a[0])
	k := p.scalarOf(fr, a[1])
	if k.IsConst() {
		x, y := co.real.ScalarBaseMult(k.Val.Bytes())
		p.regConcPt(co, x, y, c.IntC(new(big.Int).Mod(k.Val, co.N)), c.IntC64(0))
		return tuple{newBigC(x), newBigC(y)}
	}
	d := p.canonMod(k, c.IntC(co.N))
	x, y := p.mkPoint(fr, co, d, c.IntC64(0))
	return tuple{x, y}
}

// pointEqLemma adds, for two coordinate terms being compared, the injectivity
// facts of the coordinate functions (lazily, at comparison sites).
func (p *pathRun) pointEqLemma(a, b *smt.Term) {
	if a.IsConst() && b.Op == "app" {
		a, b = b, a
	}
	if a.Op == "app" && b.IsConst() && len(a.Args) == 2 && len(a.Name) > 2 && (a.Name[:2] == "X_" || a.Name[:2] == "Y_") {
		p.pointConstLemma(a, b)
		return
	}
	if a.Op != "app" || b.Op != "app" || a.Name != b.Name || len(a.Args) != 2 {
		return
	}
	var cname string
	var isX bool
	switch {
	case len(a.Name) > 2 && a.Name[:2] == "X_":
		cname, isX = a.Name[2:], true
	case len(a.Name) > 2 && a.Name[:2] == "Y_":
		cname = a.Name[2:]
	default:
		return
	}
	key := fmt.Sprintf("peq:%s:%d:%d", a.Name, a.ID, b.ID)
	if p.counters[key] > 0 {
		return
	}
	p.counters[key] = 1
	c := p.ctx
	d1, t1, d2, t2 := a.Args[0], a.Args[1], b.Args[0], b.Args[1]
	X1 := c.App("X_"+cname, smt.Int, d1, t1)
	Y1 := c.App("Y_"+cname, smt.Int, d1, t1)
	X2 := c.App("X_"+cname, smt.Int, d2, t2)
	Y2 := c.App("Y_"+cname, smt.Int, d2, t2)
	same := c.And(p.smartEq(d1, d2), c.Eq(t1, t2))
	p.axiom("point-injective", c.Eq(c.And(c.Eq(X1, X2), c.Eq(Y1, Y2)), same))
	if cname == "secp256k1" {
		N := c.IntC(btcec.S256().Params().N)
		neg := p.congruent(c.Add(d1, d2), c.IntC64(0), N)
		if isX {
			p.axiom("point-x-pm", c.Eq(c.Eq(X1, X2), c.Or(same, neg)))
		}
		// opposite points have different y (y = 0 is not on the curve)
		p.axiom("point-y-neg", c.Implies(c.And(neg, c.Not(same)), c.Not(c.Eq(Y1, Y2))))
	}
}

// concPt is a point with concrete coordinates whose group element is known
// (or named by a fresh discrete-log constant).
type concPt struct {
	curve  string
	x, y   *big.Int
	d, tau *smt.Term
}

func (p *pathRun) regConcPt(co *curveObj, x, y *big.Int, d, tau *smt.Term) {
	for _, q := range p.concPts {
		if q.curve == co.name && q.x.Cmp(x) == 0 && q.y.Cmp(y) == 0 {
			return
		}
	}
	p.concPts = append(p.concPts, concPt{co.name, x, y, d, tau})
}

// pointConstLemma: a symbolic coordinate X_c(d,tau) (or Y_c) is compared with a
// numeral. For every concrete point known on this path that has this
// coordinate value: both coordinates coincide iff the group elements coincide.
func (p *pathRun) pointConstLemma(a, k *smt.Term) {
	c := p.ctx
	cname := a.Name[2:]
	isX := a.Name[:2] == "X_"
	d1, t1 := a.Args[0], a.Args[1]
	// identities and generators are always known
	var co *curveObj
	for _, cc := range p.curveTab {
		if cc.name == cname {
			co = cc
		}
	}
	if co == nil {
		return
	}
	rp := co.real.Params()
	if cname == "secp256k1" {
		p.regConcPt(co, big.NewInt(0), big.NewInt(0), c.IntC64(0), c.IntC64(0))
	} else {
		p.regConcPt(co, big.NewInt(0), big.NewInt(1), c.IntC64(0), c.IntC64(0))
	}
	p.regConcPt(co, rp.Gx, rp.Gy, c.IntC64(1), c.IntC64(0))
	X1 := c.App("X_"+cname, smt.Int, d1, t1)
	Y1 := c.App("Y_"+cname, smt.Int, d1, t1)
	for _, q := range p.concPts {
		if q.curve != cname {
			continue
		}
		if isX && q.x.Cmp(k.Val) != 0 || !isX && q.y.Cmp(k.Val) != 0 {
			continue
		}
		key := fmt.Sprintf("pcl:%s:%d:%d:%s:%s", cname, d1.ID, t1.ID, q.x.String(), q.y.String())
		if p.counters[key] > 0 {
			continue
		}
		p.counters[key] = 1
		same := c.And(p.smartEq(d1, q.d), c.Eq(t1, q.tau))
		p.axiom("point-injective-const", c.Eq(c.And(c.Eq(X1, c.IntC(q.x)), c.Eq(Y1, c.IntC(q.y))), same))
		if cname == "secp256k1" && isX && q.x.Sign() != 0 {
			// same x coordinate iff the same or the opposite point
			neg := p.congruent(c.Add(d1, q.d), c.IntC64(0), c.IntC(co.N))
			p.axiom("point-x-pm-const", c.Eq(c.Eq(X1, c.IntC(q.x)), c.Or(same, neg)))
		}
	}
}
