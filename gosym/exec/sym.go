package exec

// Symbolic values: machine integers as bit-vectors, Booleans, math/big.Int as
// mathematical integers, strings as injective tags over integer terms.

import (
	"fmt"
	"go/token"
	"go/types"
	"math/big"

	"gosym/smt"
)

// symInt is a Go machine integer whose value is a bit-vector term.
type symInt struct {
	k types.BasicKind
	t *smt.Term
}

// symBool is a Go bool whose value is a Boolean term.
type symBool struct{ t *smt.Term }

// bigval is the pointee of *big.Int: one mathematical integer, concrete (c) or
// symbolic (t); exactly one is non-nil. c is never mutated in place.
type bigval struct {
	c *big.Int
	t *smt.Term
}

// symStr is a string that is an injective function (tag) of an integer term,
// e.g. the decimal text of a symbolic big.Int. Only equality is supported.
type symStr struct {
	tag string
	t   *smt.Term
}

func kindWidth(k types.BasicKind) int {
	switch k {
	case types.Int8, types.Uint8:
		return 8
	case types.Int16, types.Uint16:
		return 16
	case types.Int32, types.Uint32:
		return 32
	}
	return 64
}

func kindSigned(k types.BasicKind) bool {
	switch k {
	case types.Int, types.Int8, types.Int16, types.Int32, types.Int64:
		return true
	}
	return false
}

func kindOf(x value) (types.BasicKind, bool) {
	switch x := x.(type) {
	case int:
		return types.Int, true
	case int8:
		return types.Int8, true
	case int16:
		return types.Int16, true
	case int32:
		return types.Int32, true
	case int64:
		return types.Int64, true
	case uint:
		return types.Uint, true
	case uint8:
		return types.Uint8, true
	case uint16:
		return types.Uint16, true
	case uint32:
		return types.Uint32, true
	case uint64:
		return types.Uint64, true
	case uintptr:
		return types.Uintptr, true
	case symInt:
		return x.k, true
	}
	return 0, false
}

// mkInt builds a concrete Go integer value of kind k from a big.Int (wrapping).
func mkInt(k types.BasicKind, v *big.Int) value {
	w := kindWidth(k)
	m := new(big.Int).Lsh(big.NewInt(1), uint(w))
	u := new(big.Int).Mod(v, m).Uint64()
	switch k {
	case types.Int:
		return int(int64(u))
	case types.Int8:
		return int8(u)
	case types.Int16:
		return int16(u)
	case types.Int32:
		return int32(u)
	case types.Int64:
		return int64(u)
	case types.Uint:
		return uint(u)
	case types.Uint8:
		return uint8(u)
	case types.Uint16:
		return uint16(u)
	case types.Uint32:
		return uint32(u)
	case types.Uint64:
		return u
	case types.Uintptr:
		return uintptr(u)
	}
	panic(fmt.Sprintf("mkInt: bad kind %v", k))
}

// bvOf returns the bit-vector term of an integer value.
func (p *pathRun) bvOf(x value) *smt.Term {
	switch x := x.(type) {
	case symInt:
		if x.t.Sort.K == smt.KInt {
			return p.ctx.Int2BV(kindWidth(x.k), x.t)
		}
		return x.t
	}
	k, ok := kindOf(x)
	if !ok {
		panic(fmt.Sprintf("bvOf: not an integer: %T", x))
	}
	w := kindWidth(k)
	if kindSigned(k) {
		return p.ctx.BVC(w, big.NewInt(asInt64(x)))
	}
	return p.ctx.BVC(w, new(big.Int).SetUint64(uint64(asInt64(x))))
}

// normInt turns a constant term back into a concrete Go value.
func normInt(k types.BasicKind, t *smt.Term) value {
	if t.IsConst() {
		return mkInt(k, t.Val)
	}
	return symInt{k, t}
}

func (p *pathRun) boolTerm(x value) *smt.Term {
	switch x := x.(type) {
	case bool:
		return p.ctx.BoolC(x)
	case symBool:
		return x.t
	}
	panic(fmt.Sprintf("boolTerm: not a bool: %T", x))
}

func normBool(t *smt.Term) value {
	if t.IsTrue() {
		return true
	}
	if t.IsFalse() {
		return false
	}
	return symBool{t}
}

func isSymScalar(x value) bool {
	switch x.(type) {
	case symInt, symBool, symStr:
		return true
	}
	return false
}

// symBinop implements binary operators when at least one operand is symbolic.
func (p *pathRun) symBinop(fr *frame, op token.Token, t types.Type, x, y value) value {
	c := p.ctx
	switch x.(type) {
	case bool, symBool:
		a, b := p.boolTerm(x), p.boolTerm(y)
		switch op {
		case token.EQL:
			return normBool(c.Eq(a, b))
		case token.NEQ:
			return normBool(c.Not(c.Eq(a, b)))
		case token.AND:
			return normBool(c.And(a, b))
		case token.OR:
			return normBool(c.Or(a, b))
		}
		panic(unsupported(fmt.Sprintf("symbolic bool op %s", op)))
	case string, symStr:
		xs, xok := x.(symStr)
		ys, yok := y.(symStr)
		if xok && yok && xs.tag == ys.tag {
			switch op {
			case token.EQL:
				return normBool(c.Eq(xs.t, ys.t))
			case token.NEQ:
				return normBool(c.Not(c.Eq(xs.t, ys.t)))
			}
		}
		panic(unsupported(fmt.Sprintf("symbolic string op %s on %T,%T", op, x, y)))
	}
	k, ok := kindOf(x)
	if !ok {
		panic(unsupported(fmt.Sprintf("symBinop %s on %T,%T", op, x, y)))
	}
	if intBacked(x) || intBacked(y) {
		return p.intBinop(fr, op, k, x, y)
	}
	a := p.bvOf(x)
	signed := kindSigned(k)
	w := kindWidth(k)
	// shifts: y may have a different (unsigned or signed) kind
	if op == token.SHL || op == token.SHR {
		ky, _ := kindOf(y)
		b := p.bvOf(y)
		wy := kindWidth(ky)
		// Go: negative shift count panics (signed y); count >= w gives 0 / sign fill
		if kindSigned(ky) {
			neg := c.BVCmp("bvslt", b, c.BVC64(wy, 0))
			if p.fork(neg, "shift-negative") {
				p.targetPanic(fr, "negative shift amount")
			}
		}
		if wy < w {
			b = c.ZeroExt(w-wy, b)
		} else if wy > w {
			// saturate large counts
			big_ := c.BVCmp("bvuge", b, c.BVC64(wy, uint64(w)))
			b = c.Ite(big_, c.BVC64(w, uint64(w)), c.Extract(w-1, 0, b))
		}
		switch {
		case op == token.SHL:
			return normInt(k, c.BVBin("bvshl", a, b))
		case signed:
			return normInt(k, c.BVBin("bvashr", a, b))
		default:
			return normInt(k, c.BVBin("bvlshr", a, b))
		}
	}
	b := p.bvOf(y)
	// comparisons of constant-leaf ite trees (Cmp/Sign results) with constants are
	// pushed to the leaves, so the condition stays in the integer theory
	switch op {
	case token.EQL, token.NEQ, token.LSS, token.LEQ, token.GTR, token.GEQ:
		if (constIteTree(a) && b.IsConst() || constIteTree(b) && a.IsConst()) && !(a.IsConst() && b.IsConst()) {
			return normBool(p.pushCmp(op, signed, a, b))
		}
	}
	switch op {
	case token.ADD:
		return normInt(k, c.BVBin("bvadd", a, b))
	case token.SUB:
		return normInt(k, c.BVBin("bvsub", a, b))
	case token.MUL:
		return normInt(k, c.BVBin("bvmul", a, b))
	case token.QUO, token.REM:
		z := c.Eq(b, c.BVC64(w, 0))
		if p.fork(z, "div-zero") {
			p.targetPanic(fr, "integer divide by zero")
		}
		var o string
		switch {
		case op == token.QUO && signed:
			o = "bvsdiv"
		case op == token.QUO:
			o = "bvudiv"
		case signed:
			o = "bvsrem"
		default:
			o = "bvurem"
		}
		return normInt(k, c.BVBin(o, a, b))
	case token.AND:
		return normInt(k, c.BVBin("bvand", a, b))
	case token.OR:
		return normInt(k, c.BVBin("bvor", a, b))
	case token.XOR:
		return normInt(k, c.BVBin("bvxor", a, b))
	case token.AND_NOT:
		return normInt(k, c.BVBin("bvand", a, c.BVNot(b)))
	case token.EQL:
		return normBool(c.Eq(a, b))
	case token.NEQ:
		return normBool(c.Not(c.Eq(a, b)))
	case token.LSS, token.LEQ, token.GTR, token.GEQ:
		pre := "bvu"
		if signed {
			pre = "bvs"
		}
		suf := map[token.Token]string{token.LSS: "lt", token.LEQ: "le", token.GTR: "gt", token.GEQ: "ge"}[op]
		return normBool(c.BVCmp(pre+suf, a, b))
	}
	panic(unsupported(fmt.Sprintf("symBinop: op %s", op)))
}

// Int-backed machine integers: lengths of abstract byte strings are kept as
// mathematical integers (no overflow can occur: they are bounded by axiom), so
// that length arithmetic and comparisons stay in the integer theory.
func intBacked(v value) bool {
	s, ok := v.(symInt)
	return ok && s.t.Sort.K == smt.KInt
}

func (p *pathRun) intTermOf(v value) *smt.Term {
	if s, ok := v.(symInt); ok {
		if s.t.Sort.K == smt.KInt {
			return s.t
		}
		if kindSigned(s.k) {
			return p.ctx.BV2IntSigned(s.t)
		}
		return p.ctx.BV2Nat(s.t)
	}
	k, _ := kindOf(v)
	if kindSigned(k) {
		return p.ctx.IntC64(asInt64(v))
	}
	return p.ctx.IntC(new(big.Int).SetUint64(uint64(asInt64(v))))
}

func (p *pathRun) intBinop(fr *frame, op token.Token, k types.BasicKind, x, y value) value {
	c := p.ctx
	a, b := p.intTermOf(x), p.intTermOf(y)
	mk := func(t *smt.Term) value {
		if t.IsConst() {
			return mkInt(k, t.Val)
		}
		return symInt{k, t}
	}
	switch op {
	case token.ADD:
		return mk(c.Add(a, b))
	case token.SUB:
		return mk(c.Sub(a, b))
	case token.MUL:
		return mk(c.Mul(a, b))
	case token.EQL:
		return normBool(c.Eq(a, b))
	case token.NEQ:
		return normBool(c.Not(c.Eq(a, b)))
	case token.LSS:
		return normBool(c.Lt(a, b))
	case token.LEQ:
		return normBool(c.Le(a, b))
	case token.GTR:
		return normBool(c.Gt(a, b))
	case token.GEQ:
		return normBool(c.Ge(a, b))
	}
	panic(unsupported(fmt.Sprintf("operator %s on a symbolic length", op)))
}

func constIteTree(t *smt.Term) bool {
	if t.IsConst() {
		return true
	}
	return t.Op == "ite" && constIteTree(t.Args[1]) && constIteTree(t.Args[2])
}

func (p *pathRun) pushCmp(op token.Token, signed bool, a, b *smt.Term) *smt.Term {
	c := p.ctx
	if a.Op == "ite" {
		return c.Ite(a.Args[0], p.pushCmp(op, signed, a.Args[1], b), p.pushCmp(op, signed, a.Args[2], b))
	}
	if b.Op == "ite" {
		return c.Ite(b.Args[0], p.pushCmp(op, signed, a, b.Args[1]), p.pushCmp(op, signed, a, b.Args[2]))
	}
	switch op {
	case token.EQL:
		return c.Eq(a, b)
	case token.NEQ:
		return c.Not(c.Eq(a, b))
	}
	pre := "bvu"
	if signed {
		pre = "bvs"
	}
	suf := map[token.Token]string{token.LSS: "lt", token.LEQ: "le", token.GTR: "gt", token.GEQ: "ge"}[op]
	return c.BVCmp(pre+suf, a, b)
}

func (p *pathRun) symUnop(op token.Token, x value) value {
	c := p.ctx
	switch x := x.(type) {
	case symBool:
		if op == token.NOT {
			return normBool(c.Not(x.t))
		}
	case symInt:
		switch op {
		case token.SUB:
			return normInt(x.k, c.BVNeg(x.t))
		case token.XOR:
			return normInt(x.k, c.BVNot(x.t))
		}
	}
	panic(unsupported(fmt.Sprintf("symUnop %s %T", op, x)))
}

// symConv converts a symbolic integer between integer kinds.
func (p *pathRun) symConv(dst types.BasicKind, x symInt) value {
	c := p.ctx
	if x.t.Sort.K == smt.KInt {
		return symInt{dst, x.t} // lengths fit every integer kind they are converted to
	}
	ws, wd := kindWidth(x.k), kindWidth(dst)
	switch {
	case wd == ws:
		return symInt{dst, x.t}
	case wd < ws:
		return normInt(dst, c.Extract(wd-1, 0, x.t))
	case kindSigned(x.k):
		return normInt(dst, c.SignExt(wd-ws, x.t))
	}
	return normInt(dst, c.ZeroExt(wd-ws, x.t))
}

// symEquals: equality of two values when either may be symbolic; returns a term.
func (p *pathRun) eqTerm(t types.Type, x, y value) *smt.Term {
	c := p.ctx
	switch xv := x.(type) {
	case symBool, bool:
		return c.Eq(p.boolTerm(x), p.boolTerm(y))
	case symStr:
		if ys, ok := y.(symStr); ok && ys.tag == xv.tag {
			return c.Eq(xv.t, ys.t)
		}
		panic(unsupported("equality between symbolic string and other string"))
	case string:
		if _, ok := y.(symStr); ok {
			panic(unsupported("equality between symbolic string and concrete string"))
		}
		return c.BoolC(xv == y.(string))
	case bigval:
		return c.Eq(p.bt(xv), p.bt(y.(bigval)))
	case structure:
		ys := y.(structure)
		st := t.Underlying().(*types.Struct)
		var cs []*smt.Term
		for i := range xv {
			if f := st.Field(i); f.Name() == "_" {
				continue
			}
			cs = append(cs, p.eqTerm(st.Field(i).Type(), xv[i], ys[i]))
		}
		return c.And(cs...)
	case array:
		ya := y.(array)
		et := t.Underlying().(*types.Array).Elem()
		var cs []*smt.Term
		for i := range xv {
			cs = append(cs, p.eqTerm(et, xv[i], ya[i]))
		}
		return c.And(cs...)
	case iface:
		yi := y.(iface)
		if !sameType(xv.t, yi.t) {
			return c.False()
		}
		if xv.t == nil {
			return c.True()
		}
		return p.eqTerm(xv.t, xv.v, yi.v)
	}
	if _, ok := kindOf(x); ok {
		return c.Eq(p.bvOf(x), p.bvOf(y))
	}
	return c.BoolC(equals(t, x, y))
}

// containsSym reports whether a (shallow-recursive) value contains symbolic scalars.
func containsSym(x value) bool {
	switch x := x.(type) {
	case symInt, symBool, symStr:
		return true
	case bigval:
		return x.t != nil
	case structure:
		for _, e := range x {
			if containsSym(e) {
				return true
			}
		}
	case array:
		for _, e := range x {
			if containsSym(e) {
				return true
			}
		}
	case iface:
		return x.t != nil && containsSym(x.v)
	}
	return false
}
