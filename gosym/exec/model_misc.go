package exec

// Environment models: formatting/logging (opaque), errors, sync, hashes,
// randomness, reflect.TypeOf, time/context stubs.

import (
	"fmt"
	"go/types"
	"math/big"
	"strings"

	"golang.org/x/tools/go/ssa"

	"gosym/smt"
)

// zeroResults returns the zero value(s) of fn's results.
func zeroResults(fn *ssa.Function) value {
	res := fn.Signature.Results()
	switch res.Len() {
	case 0:
		return nil
	case 1:
		return zero(res.At(0).Type())
	}
	t := make(tuple, res.Len())
	for i := range t {
		t[i] = zero(res.At(i).Type())
	}
	return t
}

func opaqueZero(fn *ssa.Function) externalFn {
	return func(fr *frame, a []value) value { return zeroResults(fn) }
}

// newError builds a non-nil error value (*errors.errorString).
func (i *interpreter) newError(msg string) value {
	ep := i.eng.byPath["errors"]
	if ep == nil {
		panic(unsupported("package errors not loaded"))
	}
	t := ep.Type("errorString").Type()
	var s value = structure{msg}
	return iface{t: types.NewPointer(t), v: &s}
}

var rtypeType = types.NewPointer(types.NewNamed(types.NewTypeName(0, nil, "reflect.rtype", nil), types.NewStruct(nil, nil), nil))

func init() {
	// logging: everything in these packages is a no-op returning zero values
	for _, pkg := range []string{"github.com/ipfs/go-log", "github.com/ipfs/go-log/v2", "go.uber.org/zap", "log"} {
		pkgRules[pkg] = func(fn *ssa.Function) externalFn {
			if fn.Name() == "Logger" && fn.Signature.Results().Len() == 1 {
				// logging.Logger(name): a non-nil logger object whose methods are no-ops
				return func(fr *frame, a []value) value {
					rt := fn.Signature.Results().At(0).Type()
					if _, ok := rt.Underlying().(*types.Pointer); ok {
						var s value = zero(mustDeref(rt))
						return &s
					}
					return zero(rt)
				}
			}
			return opaqueZero(fn)
		}
	}
	pkgRules["fmt"] = func(fn *ssa.Function) externalFn {
		switch fn.Name() {
		case "Errorf":
			return func(fr *frame, a []value) value { return fr.i.newError("<fmt.Errorf " + fmtHead(a) + ">") }
		case "Sprintf", "Sprint", "Sprintln":
			return func(fr *frame, a []value) value { return "<fmt " + fmtHead(a) + ">" }
		case "Println", "Printf", "Print", "Fprintf", "Fprintln", "Fprint":
			return opaqueZero(fn)
		}
		return nil
	}
	pkgRules["github.com/pkg/errors"] = func(fn *ssa.Function) externalFn {
		switch fn.Name() {
		case "New", "Errorf":
			return func(fr *frame, a []value) value { return fr.i.newError("<pkg/errors " + fmtHead(a) + ">") }
		case "Wrap", "Wrapf", "WithMessage", "WithStack", "WithMessagef":
			return func(fr *frame, a []value) value {
				if e, ok := a[0].(iface); ok && e.t == nil {
					return iface{}
				}
				return fr.i.newError("<pkg/errors wrap>")
			}
		}
		return nil
	}
	pkgRules["github.com/hashicorp/go-multierror"] = func(fn *ssa.Function) externalFn {
		if fn.Name() == "Append" {
			return func(fr *frame, a []value) value {
				// result type *multierror.Error: return a non-nil opaque object
				res := fn.Signature.Results().At(0).Type()
				var s value = zero(mustDeref(res))
				ptr := &s
				msg := ""
				if old, ok := a[0].(iface); ok && old.t != nil {
					if op, ok := old.v.(*value); ok && op != nil {
						msg = fr.i.p.merrMsg[op]
					}
				}
				for _, e := range a[1].([]value) {
					if ei, ok := e.(iface); ok && ei.t != nil {
						if ep, ok := ei.v.(*value); ok && ep != nil {
							if st, ok := (*ep).(structure); ok && len(st) == 1 {
								if s, ok := st[0].(string); ok {
									msg += "[" + s + "]"
								}
							}
						}
					}
				}
				if fr.i.p.merrMsg == nil {
					fr.i.p.merrMsg = map[*value]string{}
				}
				fr.i.p.merrMsg[ptr] = msg
				return ptr
			}
		}
		return nil
	}
	intrinsics["(*github.com/hashicorp/go-multierror.Error).Error"] = func(fr *frame, a []value) value {
		return "<multierror " + fr.i.p.merrMsg[a[0].(*value)] + ">"
	}
	intrinsics["(*github.com/hashicorp/go-multierror.Error).ErrorOrNil"] = func(fr *frame, a []value) value {
		if a[0].(*value) == nil {
			return iface{}
		}
		return fr.i.newError("<multierror>")
	}

	// github.com/otiai10/primes: table of small primes (sieve evaluated natively)
	primesUntil := func(fr *frame, n int64) value {
		var s value = structure{n}
		return &s
	}
	intrinsics["github.com/otiai10/primes.Until"] = func(fr *frame, a []value) value { return primesUntil(fr, asInt64(a[0])) }
	intrinsics["(*github.com/otiai10/primes.cache).Until"] = func(fr *frame, a []value) value { return primesUntil(fr, asInt64(a[1])) }
	intrinsics["(*github.com/otiai10/primes.Primes).List"] = func(fr *frame, a []value) value {
		n := (*a[0].(*value)).(structure)[0].(int64)
		var out []value
		sieve := make([]bool, n+1)
		for i := int64(2); i <= n; i++ {
			if !sieve[i] {
				out = append(out, i)
				for j := i * i; j <= n; j += i {
					sieve[j] = true
				}
			}
		}
		return out
	}

	intrinsics["reflect.TypeOf"] = func(fr *frame, a []value) value {
		itf := a[0].(iface)
		if itf.t == nil {
			return iface{}
		}
		return iface{t: rtypeType, v: rtype{itf.t}}
	}
	intrinsics["runtime.NumCPU"] = func(fr *frame, a []value) value { return 4 }
	intrinsics["runtime.GOMAXPROCS"] = func(fr *frame, a []value) value { return 4 }
	intrinsics["runtime.Gosched"] = func(fr *frame, a []value) value { fr.i.p.sched.yield(); return nil }
	intrinsics["strconv.Itoa"] = func(fr *frame, a []value) value {
		if _, ok := a[0].(symInt); ok {
			panic(unsupported("strconv.Itoa of symbolic int"))
		}
		return fmt.Sprint(asInt64(a[0]))
	}
	intrinsics["time.Now"] = func(fr *frame, a []value) value {
		return zero(fr.fn.Signature.Results().At(0).Type())
	}
	intrinsics["time.Since"] = func(fr *frame, a []value) value { return int64(0) }

	// ---- sync ----
	lock := func(fr *frame, a []value) value {
		p := fr.i.p
		st := p.syncOf(a[0].(*value))
		p.sched.preempt("before Mutex.Lock")
		p.sched.block(func() bool { return !st.locked && st.readers == 0 }, "Mutex.Lock")
		st.locked = true
		st.owner = p.sched.cur.id
		p.hbAcquire(st.vc)
		p.hbAcquire(st.vcR)
		return nil
	}
	unlock := func(fr *frame, a []value) value {
		p := fr.i.p
		st := p.syncOf(a[0].(*value))
		if !st.locked {
			p.targetPanic(fr.caller, "fatal error: sync: unlock of unlocked mutex")
		}
		st.locked = false
		p.hbReleaseStore(&st.vc)
		p.sched.preempt("after Mutex.Unlock")
		return nil
	}
	intrinsics["(*sync.Mutex).Lock"] = lock
	intrinsics["(*sync.Mutex).Unlock"] = unlock
	intrinsics["(*sync.RWMutex).Lock"] = lock
	intrinsics["(*sync.RWMutex).Unlock"] = unlock
	intrinsics["(*sync.Mutex).TryLock"] = func(fr *frame, a []value) value {
		st := fr.i.p.syncOf(a[0].(*value))
		if st.locked {
			return false
		}
		st.locked = true
		fr.i.p.hbAcquire(st.vc)
		return true
	}
	intrinsics["(*sync.RWMutex).RLock"] = func(fr *frame, a []value) value {
		p := fr.i.p
		st := p.syncOf(a[0].(*value))
		p.sched.block(func() bool { return !st.locked }, "RWMutex.RLock")
		st.readers++
		p.hbAcquire(st.vc)
		return nil
	}
	intrinsics["(*sync.RWMutex).RUnlock"] = func(fr *frame, a []value) value {
		p := fr.i.p
		st := p.syncOf(a[0].(*value))
		if st.readers <= 0 {
			p.targetPanic(fr.caller, "fatal error: sync: RUnlock of unlocked RWMutex")
		}
		st.readers--
		p.hbRelease(&st.vcR)
		return nil
	}
	intrinsics["(*sync.WaitGroup).Add"] = func(fr *frame, a []value) value {
		p := fr.i.p
		st := p.syncOf(a[0].(*value))
		st.count += asInt64(a[1])
		if st.count < 0 {
			p.targetPanic(fr.caller, "sync: negative WaitGroup counter")
		}
		return nil
	}
	intrinsics["(*sync.WaitGroup).Done"] = func(fr *frame, a []value) value {
		p := fr.i.p
		st := p.syncOf(a[0].(*value))
		st.count--
		if st.count < 0 {
			p.targetPanic(fr.caller, "sync: negative WaitGroup counter")
		}
		p.hbRelease(&st.vc)
		return nil
	}
	intrinsics["(*sync.WaitGroup).Wait"] = func(fr *frame, a []value) value {
		p := fr.i.p
		st := p.syncOf(a[0].(*value))
		p.sched.block(func() bool { return st.count == 0 }, "WaitGroup.Wait")
		p.hbAcquire(st.vc)
		return nil
	}
	intrinsics["(*sync.Once).Do"] = func(fr *frame, a []value) value {
		p := fr.i.p
		st := p.syncOf(a[0].(*value))
		if !st.onceDone {
			st.onceDone = true
			call(fr.i, fr, 0, a[1], nil)
			p.hbRelease(&st.vc)
		} else {
			p.hbAcquire(st.vc)
		}
		return nil
	}
	intrinsics["sync/atomic.AddInt32"] = func(fr *frame, a []value) value {
		ptr := fr.ptr(a[0], "atomic.AddInt32")
		n := (*ptr).(int32) + a[1].(int32)
		*ptr = n
		return n
	}
	intrinsics["sync/atomic.LoadInt32"] = func(fr *frame, a []value) value { return *fr.ptr(a[0], "atomic.LoadInt32") }
	intrinsics["sync/atomic.StoreInt32"] = func(fr *frame, a []value) value {
		*fr.ptr(a[0], "atomic.StoreInt32") = a[1]
		return nil
	}

	// ---- hashes ----
	newHash := func(name, pkg, typ string, size int) externalFn {
		return func(fr *frame, a []value) value {
			return fr.i.newHashObj(name, pkg, typ, size)
		}
	}
	intrinsics["(crypto.Hash).New"] = func(fr *frame, a []value) value {
		h := asInt64(a[0])
		switch h {
		case 15: // crypto.SHA512_256
			return fr.i.newHashObj("sha512_256", "crypto/sha512", "digest", 32)
		case 5: // SHA256
			return fr.i.newHashObj("sha256", "crypto/sha256", "digest", 32)
		case 7: // SHA512
			return fr.i.newHashObj("sha512", "crypto/sha512", "digest", 64)
		}
		panic(unsupported(fmt.Sprintf("crypto.Hash(%d).New", h)))
	}
	intrinsics["crypto/sha256.New"] = newHash("sha256", "crypto/sha256", "digest", 32)
	intrinsics["crypto/sha512.New"] = newHash("sha512", "crypto/sha512", "digest", 64)
	intrinsics["crypto/sha512.New512_256"] = newHash("sha512_256", "crypto/sha512", "digest", 32)
	intrinsics["golang.org/x/crypto/ripemd160.New"] = newHash("ripemd160", "golang.org/x/crypto/ripemd160", "digest", 20)
	for _, recv := range []string{"(*crypto/sha512.digest)", "(*crypto/sha256.digest)", "(*golang.org/x/crypto/ripemd160.digest)", "(*crypto/hmac.hmac)"} {
		intrinsics[recv+".Write"] = hashWrite
		intrinsics[recv+".Sum"] = hashSum
		intrinsics[recv+".Reset"] = func(fr *frame, a []value) value {
			h := (*a[0].(*value)).(*hashObj)
			h.data = nil
			h.abs = false
			h.parts = nil
			return nil
		}
		intrinsics[recv+".Size"] = func(fr *frame, a []value) value { return (*a[0].(*value)).(*hashObj).size }
		intrinsics[recv+".BlockSize"] = func(fr *frame, a []value) value { return 128 }
	}
	intrinsics["crypto/sha256.Sum256"] = func(fr *frame, a []value) value {
		h := &hashObj{name: "sha256", size: 32}
		h.write(fr, a[0])
		d := h.sum(fr)
		return array(d)
	}
	intrinsics["crypto/hmac.New"] = func(fr *frame, a []value) value {
		// hmac.New(h func() hash.Hash, key []byte): keyed hash modelled as H("hmac", key || 0xff.. || data)
		inner := call(fr.i, fr, 0, a[0], nil).(iface)
		ih := (*inner.v.(*value)).(*hashObj)
		itf := fr.i.newHashObj("hmac_"+ih.name, "crypto/hmac", "hmac", ih.size).(iface)
		h := (*itf.v.(*value)).(*hashObj)
		h.key = a[1]
		return itf
	}
}

func concBytes(v []value) ([]byte, bool) {
	out := make([]byte, len(v))
	for i, e := range v {
		b, ok := e.(uint8)
		if !ok {
			return nil, false
		}
		out[i] = b
	}
	return out, true
}

func fmtHead(a []value) string {
	if len(a) > 0 {
		if s, ok := a[0].(string); ok {
			return strings.ReplaceAll(s, "\n", " ")
		}
	}
	return ""
}

// ---- hash model ----

type hashObj struct {
	name  string
	size  int
	data  []value // bytes (uint8 or symInt) when all writes had concrete length
	abs   bool    // some part has unknown length
	parts []value // raw parts ([]value or *absBytes) when abs
	key   value
}

type hashApp struct {
	name string
	n    int
	in   *smt.Term
	out  *smt.Term
}

func (i *interpreter) newHashObj(name, pkg, typ string, size int) value {
	sp := i.eng.byPath[pkg]
	if sp == nil {
		panic(unsupported("hash package not loaded: " + pkg))
	}
	t := sp.Type(typ).Type()
	var v value = &hashObj{name: name, size: size}
	return iface{t: types.NewPointer(t), v: &v}
}

func (h *hashObj) write(fr *frame, b value) {
	switch b := b.(type) {
	case []value:
		if h.abs {
			h.parts = append(h.parts, append([]value{}, b...))
		} else {
			h.data = append(h.data, b...)
		}
	case *absBytes:
		if b.mat != nil {
			// its length has been case-split on this path already: hash the bytes themselves
			h.write(fr, b.mat)
			return
		}
		if n := fr.i.p.knownByteLen(b.t); n > 0 && n <= 64 {
			// the bounds known on this path pin the length: no case split is needed
			h.write(fr, fr.i.p.materialize(fr, b))
			return
		}
		if !h.abs {
			h.abs = true
			if len(h.data) > 0 {
				h.parts = append(h.parts, h.data)
			}
			h.data = nil
		}
		h.parts = append(h.parts, b)
	case *absCat:
		for _, part := range b.parts {
			h.write(fr, part)
		}
	case string:
		for i := 0; i < len(b); i++ {
			h.write(fr, []value{b[i]})
		}
	default:
		panic(fmt.Sprintf("hash write of %T", b))
	}
}

func hashWrite(fr *frame, a []value) value {
	h := (*a[0].(*value)).(*hashObj)
	h.write(fr, a[1])
	var n value
	switch b := a[1].(type) {
	case []value:
		n = len(b)
	case *absBytes:
		n = fr.i.p.byteLen(b.t)
	}
	return tuple{n, iface{}}
}

// sum returns the digest bytes.
func (h *hashObj) sum(fr *frame) []value {
	p := fr.i.p
	c := p.ctx
	data := h.data
	if h.key != nil {
		kb, ok := h.key.([]value)
		if !ok {
			panic(unsupported("hmac with abstract key"))
		}
		if !h.abs && !p.eng.AbstractHashes {
			if kbs, ok1 := concBytes(kb); ok1 {
				if dbs, ok2 := concBytes(data); ok2 {
					if d := concreteHMAC(h.name, kbs, dbs); d != nil {
						res := make([]value, len(d))
						for i, b := range d {
							res[i] = b
						}
						return res
					}
				}
			}
		}
		pre := append([]value{}, kb...)
		pre = append(pre, uint8(0x5c), uint8(0x36))
		data = append(pre, data...)
	}
	var out *smt.Term
	if h.abs {
		// sequence of parts with unknown lengths: uninterpreted function over the
		// part integers, name carries the shape
		var args []*smt.Term
		shape := ""
		for _, part := range h.parts {
			switch pt := part.(type) {
			case *absBytes:
				args = append(args, pt.t)
				shape += "A"
			case []value:
				if len(pt) == 0 {
					shape += "E"
					continue
				}
				var acc *smt.Term
				for _, e := range pt {
					t := p.bvOf(e)
					if acc == nil {
						acc = t
					} else {
						acc = c.Concat(acc, t)
					}
				}
				args = append(args, c.BV2Nat(acc))
				shape += fmt.Sprintf("B%d", len(pt))
			}
		}
		out = c.App(fmt.Sprintf("H_%s_%s", h.name, shape), smt.BV(8*h.size), args...)
	} else {
		allc := true
		for _, e := range data {
			if _, ok := e.(uint8); !ok {
				allc = false
			}
		}
		n := len(data)
		var acc *smt.Term
		for _, e := range data {
			t := p.bvOf(e)
			if acc == nil {
				acc = t
			} else {
				acc = c.Concat(acc, t)
			}
		}
		if acc == nil {
			acc = c.BVC64(1, 0) // empty input
		}
		if allc && !p.eng.AbstractHashes && h.key == nil && nativeHash(h.name) != nil {
			bs := make([]byte, len(data))
			for i, e := range data {
				bs[i] = e.(uint8)
			}
			out = c.BVC(8*h.size, new(big.Int).SetBytes(concreteHash(h.name, bs)))
		} else {
			out = c.App(fmt.Sprintf("H_%s_%d", h.name, n), smt.BV(8*h.size), acc)
		}
		{
			// collision resistance, pairwise over the applications on this path
			for _, prev := range p.hashApps {
				if prev.name != h.name || (prev.out.IsConst() && out.IsConst()) {
					continue
				}
				if prev.n == n {
					p.axiom("hash-injective", c.Implies(c.Eq(prev.out, out), c.Eq(prev.in, acc)))
				} else {
					p.axiom("hash-injective", c.Not(c.Eq(prev.out, out)))
				}
			}
			p.hashApps = append(p.hashApps, hashApp{h.name, n, acc, out})
		}
	}
	res := make([]value, h.size)
	for i := 0; i < h.size; i++ {
		hi := 8*(h.size-i) - 1
		res[i] = normInt(types.Uint8, c.Extract(hi, hi-7, out))
	}
	return res
}

func hashSum(fr *frame, a []value) value {
	h := (*a[0].(*value)).(*hashObj)
	d := h.sum(fr)
	pre, _ := a[1].([]value)
	// Go append semantics: h.Sum(buf[:0]) writes into buf's backing array
	return append(pre, d...)
}

var _ = big.NewInt
