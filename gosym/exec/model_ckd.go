package exec

// Models used by crypto/ckd (C18): base58 as an abstract bijection, bytes.Equal on
// symbolic bytes, and btcec.ParsePubKey on the compressed encoding of a point the
// path knows (decompression is the inverse of serializeCompressed in the group model).

import (
	"fmt"

	"github.com/btcsuite/btcutil/base58"

	"gosym/smt"
)

// b58Str is the base58 text of a byte string with symbolic content (opaque as a string).
type b58Str struct{ bytes []value }

// pubGhost is stored in slot x.n[0] of a secp256k1.PublicKey value.
type pubGhost struct{ x, y *smt.Term }

const secpPkg = "github.com/decred/dcrd/dcrec/secp256k1/v4"

func init() {
	intrinsics["bytes.Equal"] = func(fr *frame, a []value) value {
		p := fr.i.p
		x, okx := a[0].([]value)
		y, oky := a[1].([]value)
		if !okx || !oky {
			panic(unsupported("bytes.Equal on abstract-length byte strings"))
		}
		if len(x) != len(y) {
			return false
		}
		var ts []*smt.Term
		for i := range x {
			ts = append(ts, p.ctx.Eq(p.bvOf(x[i]), p.bvOf(y[i])))
		}
		return normBool(p.ctx.And(ts...))
	}
	intrinsics["github.com/btcsuite/btcutil/base58.Encode"] = func(fr *frame, a []value) value {
		b := fr.i.p.flatBytes(fr, a[0])
		if cb, ok := concBytes(b); ok {
			return base58.Encode(cb)
		}
		return b58Str{append([]value{}, b...)}
	}
	intrinsics["github.com/btcsuite/btcutil/base58.Decode"] = func(fr *frame, a []value) value {
		switch s := a[0].(type) {
		case string:
			bs := base58.Decode(s)
			out := make([]value, len(bs))
			for i, b := range bs {
				out[i] = b
			}
			return out
		case b58Str:
			return append([]value{}, s.bytes...)
		}
		panic(unsupported(fmt.Sprintf("base58.Decode of %T", a[0])))
	}

	// ParsePubKey(b): 33-byte compressed form whose x bytes are structurally a coordinate of a
	// point on this path; the parity byte selects y. Everything else is outside the model.
	parse := func(fr *frame, a []value) value {
		p := fr.i.p
		c := p.ctx
		b, ok := a[0].([]value)
		if !ok {
			panic(unsupported("ParsePubKey of an abstract-length byte string"))
		}
		resT := fr.fn.Signature.Results().At(0).Type()
		fail := func(msg string) value {
			return tuple{zero(resT), fr.i.newError(msg)}
		}
		if len(b) != 33 {
			panic(unsupported("ParsePubKey: only the 33-byte compressed form is modelled"))
		}
		if cb, ok := concBytes(b); ok {
			_ = cb
			panic(unsupported("ParsePubKey of concrete bytes"))
		}
		f := p.bvOf(b[0])
		is2 := c.Eq(f, c.BVC64(8, 2))
		is3 := c.Eq(f, c.BVC64(8, 3))
		if !p.fork(c.Or(is2, is3), "ParsePubKey format byte") {
			return fail("invalid public key: unsupported format")
		}
		var acc *smt.Term
		for _, e := range b[1:] {
			t := p.bvOf(e)
			if acc == nil {
				acc = t
			} else {
				acc = c.Concat(acc, t)
			}
		}
		x := p.unmod(c.BV2Nat(acc))
		if !(x.Op == "app" && x.Name == "X_secp256k1") {
			panic(unsupported(fmt.Sprintf("ParsePubKey: x is not structurally the coordinate of a known point (%.80s)", x.String())))
		}
		y := c.App("Y_secp256k1", smt.Int, x.Args[0], x.Args[1])
		odd := c.Eq(c.Mod(y, c.IntC64(2)), c.IntC64(1))
		if !p.fork(c.Eq(odd, is3), "ParsePubKey parity selects the known root") {
			panic(unsupported("ParsePubKey: the other square root (negated point) is outside the model"))
		}
		st := zero(mustDeref(resT)).(structure)
		st[0].(structure)[0].(array)[0] = pubGhost{x, y}
		var sv value = st
		return tuple{&sv, iface{}}
	}
	intrinsics[secpPkg+".ParsePubKey"] = parse
	intrinsics["github.com/btcsuite/btcd/btcec/v2.ParsePubKey"] = parse
	coord := func(which int) externalFn {
		return func(fr *frame, a []value) value {
			p := fr.i.p
			st := (*fr.ptr(a[0], "PublicKey coordinate")).(structure)
			g, ok := st[0].(structure)[0].(array)[0].(pubGhost)
			if !ok {
				panic(unsupported("secp256k1.PublicKey without a model ghost"))
			}
			if which == 0 {
				return p.newBig(g.x)
			}
			return p.newBig(g.y)
		}
	}
	intrinsics["(*"+secpPkg+".PublicKey).X"] = coord(0)
	intrinsics["(*"+secpPkg+".PublicKey).Y"] = coord(1)
}

// flatBytes gives a byte string a concrete length: abstract parts are case-split
// (materialize) and the pieces concatenated.
func (p *pathRun) flatBytes(fr *frame, v value) []value {
	if b, ok := v.([]value); ok {
		return b
	}
	var flat []value
	for _, part := range absParts(v) {
		if ab, ok := part.(*absBytes); ok {
			flat = append(flat, p.materialize(fr, ab)...)
		} else {
			flat = append(flat, part.([]value)...)
		}
	}
	return flat
}

// knownByteLen returns the length of the minimal big-endian encoding of t when the bounds
// known syntactically on this path pin it (2^(8(n-1)) <= t < 2^(8n)), else -1.
func (p *pathRun) knownByteLen(t *smt.Term) int {
	lo := p.lowerTab[t]
	if lo == nil || lo.Sign() <= 0 {
		return -1
	}
	n := (lo.BitLen() + 7) / 8
	if p.knownBelow(t, pow2(uint(8*n))) {
		return n
	}
	return -1
}
