package exec

// crypto/ecdsa.Verify as the textbook verification predicate over the group
// model (the library's self-check in ecdsa/signing/finalize.go and the C01/C18
// oracle written with the harness's own point arithmetic are compared against
// each other by the solver), plus the summary of padToLengthBytesInPlace.

import (
	"fmt"
	"go/types"
	"math/big"

	"gosym/smt"
)

const ecdsaSignPkg = "github.com/bnb-chain/tss-lib/v2/ecdsa/signing"

func init() {
	// ecdsa.Verify(pub *PublicKey, hash []byte, r, s *big.Int) bool
	intrinsics["crypto/ecdsa.Verify"] = func(fr *frame, a []value) value {
		p := fr.i.p
		c := p.ctx
		pk := (*fr.ptr(a[0], "ecdsa.Verify pub")).(structure)
		co := p.curveOf(ifaceVal(pk[0]))
		X, Y := p.bigAt(fr, pk[1]), p.bigAt(fr, pk[2])
		dP, _, ok := p.pointOf(fr, co, X, Y)
		if !ok {
			return false
		}
		N := c.IntC(co.N)
		r, s := p.bigTerm(fr, a[2]), p.bigTerm(fr, a[3])
		// e: the leftmost min(len, 32) bytes of the hash as an integer
		var e *smt.Term
		switch h := a[1].(type) {
		case *absBytes:
			// minimal encoding of an integer: at most 32 bytes iff below 2^256
			if !p.knownBelow(h.t, pow2(256)) && p.fork(c.Ge(h.t, c.IntC(pow2(256))), "ecdsa hash longer than the order") {
				panic(unsupported("ecdsa.Verify with a symbolic hash longer than 32 bytes"))
			}
			e = h.t
		case []value:
			hb := h
			if len(hb) > 32 {
				hb = hb[:32]
			}
			e = p.bt(p.fromBytes(fr, hb))
		default:
			panic(unsupported("ecdsa.Verify hash argument"))
		}
		inRange := c.And(c.Ge(r, c.IntC64(1)), c.Lt(r, N), c.Ge(s, c.IntC64(1)), c.Lt(s, N))
		// all-honest run: r = 0 or s = 0 (mod N) is a coin event (excluded, counted); the upper
		// bounds r, s < N are NOT assumed: an unreduced component must still be refused
		p.genericCoins(c.Or(c.Eq(c.Mod(r, N), c.IntC64(0)), c.Eq(c.Mod(s, N), c.IntC64(0))), "ecdsa-signature-component-zero")
		if !p.fork(inRange, "ecdsa r,s in range") {
			return false
		}
		// w = s^-1 mod N (s is a unit: N prime, 0 < s < N)
		var w *smt.Term
		wkey := fmt.Sprintf("inv:%d:%d", p.canonMod(s, N).ID, N.ID)
		if prev, ok := p.ghost[wkey]; ok {
			w = prev.(*smt.Term) // the unique inverse of this residue (shared with ModInverse)
		} else {
			w = c.Fresh("inv", smt.Int)
			p.ghost[wkey] = w
			p.markNonNeg(w)
			p.axiom("inverse-def", c.And(c.Ge(w, c.IntC64(0)), c.Lt(w, N), c.Eq(c.Mod(c.Mul(s, w), N), c.IntC64(1))))
			p.registerInverse(w, s, N)
		}
		d := p.canonMod(c.Mul(c.Add(e, c.Mul(r, dP)), w), N)
		// the sum point; the identity is rejected
		dz := p.congruent(d, c.IntC64(0), N)
		if p.genericCoins(dz, "ecdsa-verification-point-not-identity") {
		} else if p.fork(dz, "ecdsa sum is identity") {
			return false
		}
		x, _ := p.coordTerms(co, d, c.IntC64(0))
		// r is compared with x mod N; register the coordinate comparison lemma when r is itself a coordinate
		xm := c.Mod(x, N)
		if r.Op == "app" {
			p.pointEqLemma(x, r)
		} else if r.Op == "mod" && r.Args[0].Op == "app" {
			p.pointEqLemma(x, r.Args[0])
		}
		if r.IsConst() && x.Op == "app" {
			// r is a numeral: for every concrete point known on this path whose x reduces to r
			for _, q := range append([]concPt{}, p.concPts...) {
				if q.curve == co.name && new(big.Int).Mod(q.x, co.N).Cmp(r.Val) == 0 {
					p.pointConstLemma(x, c.IntC(q.x))
				}
			}
		}
		return normBool(c.Eq(xm, r))
	}

	// padToLengthBytesInPlace(src, length) on x.Bytes() of a symbolic integer
	summaries[ecdsaSignPkg+".padToLengthBytesInPlace"] = func(fr *frame, a []value) value {
		ab, ok := a[0].(*absBytes)
		if !ok {
			return declined{}
		}
		p := fr.i.p
		c := p.ctx
		n := int(asInt64(a[1]))
		lim := pow2(uint(8 * n))
		if !p.knownBelow(ab.t, lim) && p.fork(c.Ge(ab.t, c.IntC(lim)), "padToLength longer than length") {
			return a[0] // already longer: returned unchanged
		}
		p.noteFits(ab.t, lim)
		bits := p.lowBits(ab.t, 8*n)
		out := make([]value, n)
		for i := 0; i < n; i++ {
			hi := 8*(n-i) - 1
			out[i] = normInt(types.Uint8, c.Extract(hi, hi-7, bits))
		}
		return out
	}
}
