// gosym: symbolic execution of harness functions over the SSA of /repo.
package main

import (
	"encoding/json"
	"flag"
	"fmt"
	"os"
	"path/filepath"
	"regexp"
	"strings"

	"gosym/exec"
)

func main() {
	repo := flag.String("repo", "/repo", "repository root")
	hdir := flag.String("harness", "/verif/harness", "harness tree (mirrors the repo layout)")
	run := flag.String("run", "", "regexp selecting harness functions (matched against pkg.Func)")
	out := flag.String("out", "", "write JSON results to this file")
	workers := flag.Int("workers", 8, "parallel path workers")
	maxPaths := flag.Int("max-paths", 20000, "path budget per harness")
	feas := flag.Int("feas-ms", 5000, "feasibility query timeout")
	verdict := flag.Int("verdict-ms", 20000, "verdict query timeout")
	solver := flag.String("solver", "z3-new", "z3 | z3-new | cvc5")
	dump := flag.String("dump", "", "directory to dump queries")
	verbose := flag.Bool("v", false, "verbose")
	abstractHashes := flag.Bool("abstract-hashes", false, "never evaluate hashes natively")
	maxUnwind := flag.Int("unwind", 100000, "per-frame block visit bound")
	noInc := flag.Bool("no-inc", false, "do not use the incremental solver for feasibility queries")
	incMs := flag.Int("inc-ms", 1500, "timeout of incremental feasibility queries")
	flag.Parse()

	e := exec.NewEngine(*repo)
	e.Workers, e.MaxPaths, e.FeasMs, e.VerdictMs, e.SolverKind = *workers, *maxPaths, *feas, *verdict, *solver
	e.DumpQueries, e.Verbose, e.AbstractHashes, e.MaxUnwind = *dump, *verbose, *abstractHashes, *maxUnwind

	e.NoIncremental, e.IncMs = *noInc, *incMs

	overlay := map[string]string{}
	pkgs := map[string]bool{}
	filepath.Walk(*hdir, func(path string, info os.FileInfo, err error) error {
		if err != nil || info.IsDir() || !strings.HasSuffix(path, ".go") {
			return nil
		}
		rel, _ := filepath.Rel(*hdir, path)
		if strings.HasSuffix(rel, "_test.go") {
			return nil
		}
		overlay[filepath.Join(*repo, rel)] = path
		pkgs["./"+filepath.Dir(rel)] = true
		return nil
	})
	var patterns []string
	for p := range pkgs {
		patterns = append(patterns, p)
	}
	if err := e.Load(patterns, overlay, "verif"); err != nil {
		fmt.Fprintln(os.Stderr, "LOAD ERROR:", err)
		os.Exit(3)
	}
	re := regexp.MustCompile(*run)
	var results []*exec.HarnessResult
	for _, h := range e.Harnesses() {
		if !re.MatchString(h.String()) {
			continue
		}
		r := e.RunHarness(h)
		results = append(results, r)
		nd, nv, ni := 0, 0, 0
		for _, o := range r.Obligations {
			switch o.Status {
			case "discharged":
				nd++
			case "violated":
				nv++
			default:
				ni++
			}
		}
		fmt.Fprintf(os.Stderr, "%-70s paths=%d outcomes=%v discharged=%d violated=%d inconclusive=%d queries=%d wall=%dms\n",
			h.String(), r.Paths, r.Outcomes, nd, nv, ni, r.Queries, r.WallMs)
		if *verbose {
			for _, d := range r.Details {
				fmt.Fprintln(os.Stderr, "   ", d)
			}
			for _, o := range r.Obligations {
				if o.Status != "discharged" {
					fmt.Fprintf(os.Stderr, "    %s %s [%s] %s %s model=%v\n", o.Status, o.Kind, o.Label, o.Site, o.Diag, o.Model)
				}
			}
		}
	}
	res := map[string]interface{}{"load_ms": e.LoadTime.Milliseconds(), "results": results}
	b, _ := json.MarshalIndent(res, "", " ")
	if *out != "" {
		os.WriteFile(*out, b, 0o644)
	} else if !*verbose {
		os.Stdout.Write(b)
	}
}
