module gosym

go 1.23

require golang.org/x/tools v0.29.0

require golang.org/x/crypto v0.13.0

require (
	github.com/agl/ed25519 v0.0.0-20170116200512-5312a6153412 // indirect
	github.com/decred/dcrd/dcrec/secp256k1/v4 v4.0.1 // indirect
	golang.org/x/mod v0.22.0 // indirect
	golang.org/x/sync v0.10.0 // indirect
)

require (
	github.com/btcsuite/btcd/btcec/v2 v2.3.2
	github.com/btcsuite/btcutil v1.0.2
	github.com/decred/dcrd/dcrec/edwards/v2 v2.0.3
)

replace github.com/agl/ed25519 => github.com/binance-chain/edwards25519 v0.0.0-20200305024217-f36fc4b53d43
