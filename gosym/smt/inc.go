package smt

import (
	"fmt"
	"math/big"
	"strings"
	"time"
)

// Inc drives one solver process incrementally for one path: path-condition
// terms are asserted once at the base level; each check pushes a scope for the
// extra assumption. Used for feasibility queries; verdict queries stay
// stateless (one-shot) because the solver's one-shot strategies are stronger.
type Inc struct {
	S        *Solver
	ctx      *Ctx
	declared map[string]bool
	defined  map[int]bool
	asserted int
	started  bool
	broken   bool
}

func NewInc(s *Solver, ctx *Ctx) *Inc {
	return &Inc{S: s, ctx: ctx, declared: map[string]bool{}, defined: map[int]bool{}}
}

func headOf(t *Term) string {
	switch t.Op {
	case "app":
		return symName(t.Name)
	case "extract":
		return fmt.Sprintf("(_ extract %d %d)", t.Aux[0], t.Aux[1])
	case "zero_extend", "sign_extend":
		return fmt.Sprintf("(_ %s %d)", t.Op, t.Aux[0])
	case "int2bv":
		return fmt.Sprintf("(_ int2bv %d)", t.Aux[0])
	}
	return t.Op
}

func refOf(t *Term) string {
	switch t.Op {
	case "const":
		return constText(t)
	case "var":
		return symName(t.Name)
	}
	return fmt.Sprintf("n%d", t.ID)
}

// emit writes declarations and definitions needed for the terms that are not
// yet known to the solver; returns the text and what was added.
func (ic *Inc) emit(sb *strings.Builder, terms []*Term) (newDecl []string, newDef []int) {
	var walk func(t *Term)
	walk = func(t *Term) {
		switch t.Op {
		case "const":
			return
		case "var":
			if !ic.declared[t.Name] {
				ic.declared[t.Name] = true
				newDecl = append(newDecl, t.Name)
				fmt.Fprintf(sb, "(declare-fun %s () %s)\n", symName(t.Name), t.Sort)
			}
			return
		}
		if ic.defined[t.ID] {
			return
		}
		for _, a := range t.Args {
			walk(a)
		}
		if t.Op == "app" && !ic.declared["@"+t.Name] {
			ic.declared["@"+t.Name] = true
			newDecl = append(newDecl, "@"+t.Name)
			fd := ic.ctx.Funs[t.Name]
			sb.WriteString("(declare-fun " + symName(t.Name) + " (")
			for i, a := range fd.Args {
				if i > 0 {
					sb.WriteByte(' ')
				}
				sb.WriteString(a.String())
			}
			sb.WriteString(") " + fd.Ret.String() + ")\n")
		}
		ic.defined[t.ID] = true
		newDef = append(newDef, t.ID)
		fmt.Fprintf(sb, "(define-fun n%d () %s (%s", t.ID, t.Sort, headOf(t))
		for _, a := range t.Args {
			sb.WriteByte(' ')
			sb.WriteString(refOf(a))
		}
		sb.WriteString("))\n")
	}
	for _, t := range terms {
		walk(t)
	}
	return
}

// Check decides pc ∧ extra. pc must only grow between calls (same path).
func (ic *Inc) Check(pc []*Term, extra *Term, timeoutMs int) Result {
	if ic.broken {
		return Unknown
	}
	s := ic.S
	s.mu.Lock()
	defer s.mu.Unlock()
	t0 := time.Now()
	var sb strings.Builder
	if !ic.started {
		sb.WriteString("(reset)\n")
		ic.started = true
	}
	if s.Kind == "cvc5" {
		fmt.Fprintf(&sb, "(set-option :tlimit-per %d)\n", timeoutMs)
	} else {
		fmt.Fprintf(&sb, "(set-option :timeout %d)\n", timeoutMs)
	}
	if ic.asserted < len(pc) {
		nw := pc[ic.asserted:]
		ic.emit(&sb, nw)
		for _, t := range nw {
			fmt.Fprintf(&sb, "(assert %s)\n", refOf(t))
		}
		ic.asserted = len(pc)
	}
	var nd []string
	var nf []int
	if extra != nil {
		sb.WriteString("(push 1)\n")
		nd, nf = ic.emit(&sb, []*Term{extra})
		fmt.Fprintf(&sb, "(assert %s)\n", refOf(extra))
	}
	sb.WriteString("(check-sat)\n")
	if extra != nil {
		sb.WriteString("(pop 1)\n")
	}
	sb.WriteString("(echo \"@@ic\")\n")
	// scoped declarations and definitions disappear with the pop
	for _, d := range nd {
		delete(ic.declared, d)
	}
	for _, d := range nf {
		delete(ic.defined, d)
	}
	res := Unknown
	if _, err := s.in.Write([]byte(sb.String())); err != nil {
		ic.broken = true
		s.restart()
		return Unknown
	}
	lines, err := s.readUntil("@@ic", time.Duration(timeoutMs)*time.Millisecond*2+10*time.Second)
	if err != nil {
		ic.broken = true
		s.restart()
		return Unknown
	}
	for _, l := range lines {
		if strings.Contains(l, "(error") {
			s.Stats.Errors++
			ic.broken = true
			return Unknown
		}
		switch strings.TrimSpace(l) {
		case "sat":
			res = Sat
		case "unsat":
			res = Unsat
		}
	}
	d := time.Since(t0)
	s.Stats.Queries++
	s.Stats.Time += d
	if d > s.Stats.MaxQuery {
		s.Stats.MaxQuery = d
	}
	switch res {
	case Sat:
		s.Stats.Sat++
	case Unsat:
		s.Stats.Unsat++
	default:
		s.Stats.Unknown++
	}
	return res
}

var _ = big.NewInt
