package smt

import (
	"bufio"
	"fmt"
	"io"
	"math/big"
	"os/exec"
	"strings"
	"sync"
	"time"
)

type Result int

const (
	Unsat Result = iota
	Sat
	Unknown
)

func (r Result) String() string { return [...]string{"unsat", "sat", "unknown"}[r] }

// Solver wraps one long-lived solver process (z3 -in / z3-new -in / cvc5 --incremental).
type Solver struct {
	Kind  string // "z3", "z3-new", "cvc5"
	cmd   *exec.Cmd
	in    io.WriteCloser
	out   *bufio.Reader
	mu    sync.Mutex
	Stats SolverStats
}

type SolverStats struct {
	Queries  int
	Sat      int
	Unsat    int
	Unknown  int
	Errors   int
	Time     time.Duration
	MaxQuery time.Duration
}

func NewSolver(kind string) (*Solver, error) {
	s := &Solver{Kind: kind}
	if err := s.start(); err != nil {
		return nil, err
	}
	return s, nil
}

func (s *Solver) start() error {
	var cmd *exec.Cmd
	switch s.Kind {
	case "z3", "z3-new":
		cmd = exec.Command(s.Kind, "-in")
	case "cvc5":
		cmd = exec.Command("cvc5", "--incremental", "--lang=smt2", "--produce-models")
	default:
		return fmt.Errorf("unknown solver %q", s.Kind)
	}
	in, err := cmd.StdinPipe()
	if err != nil {
		return err
	}
	out, err := cmd.StdoutPipe()
	if err != nil {
		return err
	}
	cmd.Stderr = nil
	if err := cmd.Start(); err != nil {
		return err
	}
	s.cmd, s.in, s.out = cmd, in, bufio.NewReaderSize(out, 1<<20)
	return nil
}

func (s *Solver) Close() {
	if s.cmd != nil {
		s.in.Close()
		s.cmd.Process.Kill()
		s.cmd.Wait()
		s.cmd = nil
	}
}

func (s *Solver) restart() {
	s.Close()
	s.start()
}

// Check runs one stateless query. script contains declarations and assertions.
// If values is non-empty and the result is sat, the model values of those
// symbols are returned (name -> value; Bool as 0/1, BV as unsigned).
func (s *Solver) Check(script string, timeoutMs int, values []string) (Result, map[string]*big.Int, string) {
	s.mu.Lock()
	defer s.mu.Unlock()
	t0 := time.Now()
	res, model, diag := s.check(script, timeoutMs, values)
	d := time.Since(t0)
	s.Stats.Queries++
	s.Stats.Time += d
	if d > s.Stats.MaxQuery {
		s.Stats.MaxQuery = d
	}
	switch res {
	case Sat:
		s.Stats.Sat++
	case Unsat:
		s.Stats.Unsat++
	default:
		s.Stats.Unknown++
	}
	return res, model, diag
}

func (s *Solver) check(script string, timeoutMs int, values []string) (Result, map[string]*big.Int, string) {
	var sb strings.Builder
	sb.WriteString("(reset)\n")
	if s.Kind == "cvc5" {
		sb.WriteString("(set-logic ALL)\n(set-option :produce-models true)\n")
		fmt.Fprintf(&sb, "(set-option :tlimit-per %d)\n", timeoutMs)
	} else {
		fmt.Fprintf(&sb, "(set-option :timeout %d)\n", timeoutMs)
	}
	sb.WriteString(script)
	sb.WriteString("(check-sat)\n(echo \"@@cs\")\n")
	if _, err := io.WriteString(s.in, sb.String()); err != nil {
		s.restart()
		return Unknown, nil, "write failed: " + err.Error()
	}
	lines, err := s.readUntil("@@cs", time.Duration(timeoutMs)*time.Millisecond*2+10*time.Second)
	if err != nil {
		s.restart()
		return Unknown, nil, "solver died or hung: " + err.Error()
	}
	res := Unknown
	diag := ""
	for _, l := range lines {
		if strings.Contains(l, "(error") {
			s.Stats.Errors++
			return Unknown, nil, "solver error: " + l
		}
		switch strings.TrimSpace(l) {
		case "sat":
			res = Sat
		case "unsat":
			res = Unsat
		case "unknown", "timeout":
			res = Unknown
			diag = strings.TrimSpace(l)
		}
	}
	if res != Sat || len(values) == 0 {
		return res, nil, diag
	}
	var gv strings.Builder
	gv.WriteString("(get-value (")
	for _, v := range values {
		gv.WriteString(symName(v))
		gv.WriteByte(' ')
	}
	gv.WriteString("))\n(echo \"@@gv\")\n")
	if _, err := io.WriteString(s.in, gv.String()); err != nil {
		s.restart()
		return Sat, nil, "get-value write failed"
	}
	lines, err = s.readUntil("@@gv", 30*time.Second)
	if err != nil {
		s.restart()
		return Sat, nil, "get-value failed: " + err.Error()
	}
	txt := strings.Join(lines, "\n")
	if strings.Contains(txt, "(error") {
		s.Stats.Errors++
		return Sat, nil, "get-value error: " + txt
	}
	model := parseValues(txt)
	return Sat, model, ""
}

func (s *Solver) readUntil(marker string, limit time.Duration) ([]string, error) {
	type rl struct {
		lines []string
		err   error
	}
	ch := make(chan rl, 1)
	go func() {
		var lines []string
		for {
			l, err := s.out.ReadString('\n')
			if err != nil {
				ch <- rl{lines, err}
				return
			}
			l = strings.TrimRight(l, "\r\n")
			t := strings.Trim(l, "\"")
			if t == marker {
				ch <- rl{lines, nil}
				return
			}
			lines = append(lines, l)
		}
	}()
	select {
	case r := <-ch:
		return r.lines, r.err
	case <-time.After(limit):
		s.cmd.Process.Kill()
		<-ch
		return nil, fmt.Errorf("timeout after %v", limit)
	}
}

// ---- s-expression value parsing ----

type sx struct {
	atom string
	list []*sx
}

func parseSx(s string, pos *int) *sx {
	for *pos < len(s) && (s[*pos] == ' ' || s[*pos] == '\n' || s[*pos] == '\t' || s[*pos] == '\r') {
		*pos++
	}
	if *pos >= len(s) {
		return nil
	}
	if s[*pos] == '(' {
		*pos++
		n := &sx{list: []*sx{}}
		for {
			for *pos < len(s) && (s[*pos] == ' ' || s[*pos] == '\n' || s[*pos] == '\t' || s[*pos] == '\r') {
				*pos++
			}
			if *pos >= len(s) {
				return n
			}
			if s[*pos] == ')' {
				*pos++
				return n
			}
			c := parseSx(s, pos)
			if c == nil {
				return n
			}
			n.list = append(n.list, c)
		}
	}
	start := *pos
	if s[*pos] == '|' {
		*pos++
		for *pos < len(s) && s[*pos] != '|' {
			*pos++
		}
		*pos++
		return &sx{atom: s[start+1 : *pos-1]}
	}
	for *pos < len(s) && s[*pos] != ' ' && s[*pos] != '\n' && s[*pos] != ')' && s[*pos] != '(' && s[*pos] != '\t' {
		*pos++
	}
	return &sx{atom: s[start:*pos]}
}

func sxValue(n *sx) *big.Int {
	if n == nil {
		return nil
	}
	if n.list == nil {
		a := n.atom
		switch {
		case a == "true":
			return big.NewInt(1)
		case a == "false":
			return big.NewInt(0)
		case strings.HasPrefix(a, "#x"):
			v, ok := new(big.Int).SetString(a[2:], 16)
			if ok {
				return v
			}
		case strings.HasPrefix(a, "#b"):
			v, ok := new(big.Int).SetString(a[2:], 2)
			if ok {
				return v
			}
		default:
			v, ok := new(big.Int).SetString(a, 10)
			if ok {
				return v
			}
		}
		return nil
	}
	if len(n.list) == 2 && n.list[0].atom == "-" {
		v := sxValue(n.list[1])
		if v != nil {
			return new(big.Int).Neg(v)
		}
	}
	if len(n.list) == 3 && n.list[0].atom == "_" && strings.HasPrefix(n.list[1].atom, "bv") {
		v, ok := new(big.Int).SetString(n.list[1].atom[2:], 10)
		if ok {
			return v
		}
	}
	return nil
}

func parseValues(txt string) map[string]*big.Int {
	pos := 0
	root := parseSx(txt, &pos)
	out := map[string]*big.Int{}
	if root == nil {
		return out
	}
	for _, p := range root.list {
		if len(p.list) == 2 && p.list[0].list == nil {
			if v := sxValue(p.list[1]); v != nil {
				out[p.list[0].atom] = v
			}
		}
	}
	return out
}
