// Package smt is a small hash-consed term DAG with an SMT-LIB2 printer.
// Sorts: Bool, Int (mathematical), BitVec n.
package smt

import (
	"fmt"
	"math/big"
	"sort"
	"strings"
)

type SortKind int

const (
	KBool SortKind = iota
	KInt
	KBV
)

type Sort struct {
	K SortKind
	W int
}

var (
	Bool = Sort{KBool, 0}
	Int  = Sort{KInt, 0}
)

func BV(w int) Sort { return Sort{KBV, w} }

func (s Sort) String() string {
	switch s.K {
	case KBool:
		return "Bool"
	case KInt:
		return "Int"
	}
	return fmt.Sprintf("(_ BitVec %d)", s.W)
}

// Term is an immutable node. Terms are only created through a Ctx.
type Term struct {
	ID   int
	Op   string // "const" (numeral/bv literal/true/false), "var", "app" (uninterpreted), or an SMT operator
	Sort Sort
	Args []*Term
	Val  *big.Int // for const (Bool: 0/1)
	Name string   // for var and app; for indexed ops the rendered head
	Aux  [2]int   // extract hi/lo, extend amount
}

type Ctx struct {
	tab    map[string]*Term
	nextID int
	Vars   []*Term          // declared variables in order
	Funs   map[string]*FunDecl // uninterpreted functions
	FunOrd []string
	fresh  map[string]int
}

type FunDecl struct {
	Name string
	Args []Sort
	Ret  Sort
}

func NewCtx() *Ctx {
	return &Ctx{tab: map[string]*Term{}, Funs: map[string]*FunDecl{}, fresh: map[string]int{}}
}

func (c *Ctx) intern(t *Term) *Term {
	var sb strings.Builder
	sb.WriteString(t.Op)
	sb.WriteByte('|')
	sb.WriteString(t.Name)
	sb.WriteByte('|')
	fmt.Fprintf(&sb, "%d.%d|%d.%d|", t.Sort.K, t.Sort.W, t.Aux[0], t.Aux[1])
	if t.Val != nil {
		sb.WriteString(t.Val.String())
	}
	for _, a := range t.Args {
		fmt.Fprintf(&sb, ",%d", a.ID)
	}
	k := sb.String()
	if o, ok := c.tab[k]; ok {
		return o
	}
	c.nextID++
	t.ID = c.nextID
	c.tab[k] = t
	return t
}

func (t *Term) IsConst() bool { return t.Op == "const" }
func (t *Term) IsTrue() bool  { return t.Op == "const" && t.Sort.K == KBool && t.Val.Sign() != 0 }
func (t *Term) IsFalse() bool { return t.Op == "const" && t.Sort.K == KBool && t.Val.Sign() == 0 }

// ---- constructors ----

func (c *Ctx) True() *Term  { return c.intern(&Term{Op: "const", Sort: Bool, Val: big.NewInt(1)}) }
func (c *Ctx) False() *Term { return c.intern(&Term{Op: "const", Sort: Bool, Val: big.NewInt(0)}) }
func (c *Ctx) BoolC(b bool) *Term {
	if b {
		return c.True()
	}
	return c.False()
}
func (c *Ctx) IntC(v *big.Int) *Term {
	return c.intern(&Term{Op: "const", Sort: Int, Val: new(big.Int).Set(v)})
}
func (c *Ctx) IntC64(v int64) *Term { return c.IntC(big.NewInt(v)) }
func (c *Ctx) BVC(w int, v *big.Int) *Term {
	m := new(big.Int).Lsh(big.NewInt(1), uint(w))
	x := new(big.Int).Mod(v, m)
	return c.intern(&Term{Op: "const", Sort: BV(w), Val: x})
}
func (c *Ctx) BVC64(w int, v uint64) *Term { return c.BVC(w, new(big.Int).SetUint64(v)) }

// Var declares (or returns) a variable of the given sort.
func (c *Ctx) Var(name string, s Sort) *Term {
	t := &Term{Op: "var", Sort: s, Name: name}
	n := c.nextID
	r := c.intern(t)
	if c.nextID != n {
		c.Vars = append(c.Vars, r)
	}
	return r
}

// Fresh returns a new variable with a unique name derived from prefix.
func (c *Ctx) Fresh(prefix string, s Sort) *Term {
	c.fresh[prefix]++
	return c.Var(fmt.Sprintf("%s!%d", prefix, c.fresh[prefix]), s)
}

// App applies an uninterpreted function (declared on first use).
func (c *Ctx) App(name string, ret Sort, args ...*Term) *Term {
	if _, ok := c.Funs[name]; !ok {
		fd := &FunDecl{Name: name, Ret: ret}
		for _, a := range args {
			fd.Args = append(fd.Args, a.Sort)
		}
		c.Funs[name] = fd
		c.FunOrd = append(c.FunOrd, name)
	}
	return c.intern(&Term{Op: "app", Sort: ret, Name: name, Args: args})
}

func (c *Ctx) mk(op string, s Sort, args ...*Term) *Term {
	return c.intern(&Term{Op: op, Sort: s, Args: args})
}

// ---- Bool ----

func (c *Ctx) Not(a *Term) *Term {
	if a.IsConst() {
		return c.BoolC(a.Val.Sign() == 0)
	}
	if a.Op == "not" {
		return a.Args[0]
	}
	return c.mk("not", Bool, a)
}

func (c *Ctx) And(as ...*Term) *Term {
	var out []*Term
	for _, a := range as {
		if a.IsTrue() {
			continue
		}
		if a.IsFalse() {
			return a
		}
		if a.Op == "and" {
			out = append(out, a.Args...)
			continue
		}
		out = append(out, a)
	}
	if len(out) == 0 {
		return c.True()
	}
	if len(out) == 1 {
		return out[0]
	}
	return c.mk("and", Bool, out...)
}

func (c *Ctx) Or(as ...*Term) *Term {
	var out []*Term
	for _, a := range as {
		if a.IsFalse() {
			continue
		}
		if a.IsTrue() {
			return a
		}
		if a.Op == "or" {
			out = append(out, a.Args...)
			continue
		}
		out = append(out, a)
	}
	if len(out) == 0 {
		return c.False()
	}
	if len(out) == 1 {
		return out[0]
	}
	return c.mk("or", Bool, out...)
}

func (c *Ctx) Implies(a, b *Term) *Term { return c.Or(c.Not(a), b) }

func (c *Ctx) Ite(cnd, a, b *Term) *Term {
	if cnd.IsTrue() {
		return a
	}
	if cnd.IsFalse() {
		return b
	}
	if a == b {
		return a
	}
	if a.Sort.K == KBool {
		if a.IsTrue() && b.IsFalse() {
			return cnd
		}
		if a.IsFalse() && b.IsTrue() {
			return c.Not(cnd)
		}
	}
	return c.mk("ite", a.Sort, cnd, a, b)
}

func (c *Ctx) Eq(a, b *Term) *Term {
	if a == b {
		return c.True()
	}
	if a.Sort != b.Sort {
		panic(fmt.Sprintf("smt.Eq: sort mismatch %v vs %v", a.Sort, b.Sort))
	}
	if a.IsConst() && b.IsConst() {
		return c.BoolC(a.Val.Cmp(b.Val) == 0)
	}
	if a.ID > b.ID {
		a, b = b, a
	}
	return c.mk("=", Bool, a, b)
}

func (c *Ctx) Distinct(a, b *Term) *Term { return c.Not(c.Eq(a, b)) }

// ---- Int ----

func (c *Ctx) Add(as ...*Term) *Term {
	acc := new(big.Int)
	var out []*Term
	for _, a := range as {
		if a.IsConst() {
			acc.Add(acc, a.Val)
		} else if a.Op == "+" {
			for _, x := range a.Args {
				if x.IsConst() {
					acc.Add(acc, x.Val)
				} else {
					out = append(out, x)
				}
			}
		} else {
			out = append(out, a)
		}
	}
	if len(out) == 0 {
		return c.IntC(acc)
	}
	sortByID(out)
	if acc.Sign() != 0 {
		out = append(out, c.IntC(acc))
	}
	if len(out) == 1 {
		return out[0]
	}
	return c.mk("+", Int, out...)
}

func constLeaves(t *Term) bool {
	if t.IsConst() {
		return true
	}
	return t.Op == "ite" && constLeaves(t.Args[1]) && constLeaves(t.Args[2])
}

func sortByID(ts []*Term) {
	sort.SliceStable(ts, func(i, j int) bool { return ts[i].ID < ts[j].ID })
}

func (c *Ctx) Neg(a *Term) *Term {
	if a.IsConst() {
		return c.IntC(new(big.Int).Neg(a.Val))
	}
	if a.Op == "-" && len(a.Args) == 1 {
		return a.Args[0]
	}
	return c.mk("-", Int, a)
}

func (c *Ctx) Sub(a, b *Term) *Term {
	if b.IsConst() {
		return c.Add(a, c.IntC(new(big.Int).Neg(b.Val)))
	}
	if a == b {
		return c.IntC64(0)
	}
	if a.IsConst() && a.Val.Sign() == 0 {
		return c.Neg(b)
	}
	return c.mk("-", Int, a, b)
}

func (c *Ctx) Mul(as ...*Term) *Term {
	acc := big.NewInt(1)
	var out []*Term
	for _, a := range as {
		if a.IsConst() {
			acc.Mul(acc, a.Val)
		} else if a.Op == "*" {
			for _, x := range a.Args {
				if x.IsConst() {
					acc.Mul(acc, x.Val)
				} else {
					out = append(out, x)
				}
			}
		} else {
			out = append(out, a)
		}
	}
	if acc.Sign() == 0 {
		return c.IntC64(0)
	}
	if len(out) == 0 {
		return c.IntC(acc)
	}
	sortByID(out)
	if acc.Cmp(big.NewInt(1)) != 0 {
		out = append([]*Term{c.IntC(acc)}, out...)
	}
	if len(out) == 1 {
		return out[0]
	}
	return c.mk("*", Int, out...)
}

// Div/Mod are SMT-LIB (Euclidean for positive divisors: floor for b>0).
func (c *Ctx) Div(a, b *Term) *Term {
	if a.IsConst() && b.IsConst() && b.Val.Sign() != 0 {
		q, m := new(big.Int), new(big.Int)
		q.DivMod(a.Val, b.Val, m)
		return c.IntC(q)
	}
	return c.mk("div", Int, a, b)
}

func (c *Ctx) Mod(a, b *Term) *Term {
	if a.IsConst() && b.IsConst() && b.Val.Sign() != 0 {
		return c.IntC(new(big.Int).Mod(a.Val, b.Val))
	}
	// (x mod m) mod m = x mod m
	if a.Op == "mod" && a.Args[1] == b {
		return a
	}
	return c.mk("mod", Int, a, b)
}

func (c *Ctx) Abs(a *Term) *Term {
	if a.IsConst() {
		return c.IntC(new(big.Int).Abs(a.Val))
	}
	switch a.Op {
	case "abs", "bv2nat":
		return a
	case "mod":
		return a // SMT-LIB mod is never negative
	}
	return c.mk("abs", Int, a)
}

func (c *Ctx) cmpInt(op string, a, b *Term) *Term {
	if a.IsConst() && b.IsConst() {
		k := a.Val.Cmp(b.Val)
		switch op {
		case "<":
			return c.BoolC(k < 0)
		case "<=":
			return c.BoolC(k <= 0)
		case ">":
			return c.BoolC(k > 0)
		case ">=":
			return c.BoolC(k >= 0)
		}
	}
	if a == b {
		return c.BoolC(op == "<=" || op == ">=")
	}
	if a.Op == "ite" && constLeaves(a) && b.IsConst() {
		return c.Ite(a.Args[0], c.cmpInt(op, a.Args[1], b), c.cmpInt(op, a.Args[2], b))
	}
	if b.Op == "ite" && constLeaves(b) && a.IsConst() {
		return c.Ite(b.Args[0], c.cmpInt(op, a, b.Args[1]), c.cmpInt(op, a, b.Args[2]))
	}
	return c.mk(op, Bool, a, b)
}
func (c *Ctx) Lt(a, b *Term) *Term { return c.cmpInt("<", a, b) }
func (c *Ctx) Le(a, b *Term) *Term { return c.cmpInt("<=", a, b) }
func (c *Ctx) Gt(a, b *Term) *Term { return c.cmpInt(">", a, b) }
func (c *Ctx) Ge(a, b *Term) *Term { return c.cmpInt(">=", a, b) }

// ---- BV ----

func mask(w int) *big.Int {
	m := new(big.Int).Lsh(big.NewInt(1), uint(w))
	return m.Sub(m, big.NewInt(1))
}

func toSigned(v *big.Int, w int) *big.Int {
	if v.Bit(w-1) == 1 {
		return new(big.Int).Sub(v, new(big.Int).Lsh(big.NewInt(1), uint(w)))
	}
	return new(big.Int).Set(v)
}

// BVBin builds a binary bit-vector operation with constant folding.
func (c *Ctx) BVBin(op string, a, b *Term) *Term {
	w := a.Sort.W
	if a.Sort != b.Sort {
		panic(fmt.Sprintf("smt.BVBin %s: sort mismatch %v %v", op, a.Sort, b.Sort))
	}
	if a.IsConst() && b.IsConst() {
		x, y := a.Val, b.Val
		r := new(big.Int)
		ok := true
		switch op {
		case "bvadd":
			r.Add(x, y)
		case "bvsub":
			r.Sub(x, y)
		case "bvmul":
			r.Mul(x, y)
		case "bvand":
			r.And(x, y)
		case "bvor":
			r.Or(x, y)
		case "bvxor":
			r.Xor(x, y)
		case "bvshl":
			if y.Cmp(big.NewInt(int64(w))) >= 0 {
				r.SetInt64(0)
			} else {
				r.Lsh(x, uint(y.Int64()))
			}
		case "bvlshr":
			if y.Cmp(big.NewInt(int64(w))) >= 0 {
				r.SetInt64(0)
			} else {
				r.Rsh(x, uint(y.Int64()))
			}
		case "bvashr":
			sx := toSigned(x, w)
			if y.Cmp(big.NewInt(int64(w))) >= 0 {
				if sx.Sign() < 0 {
					r.SetInt64(-1)
				} else {
					r.SetInt64(0)
				}
			} else {
				r.Rsh(sx, uint(y.Int64()))
			}
		case "bvudiv":
			if y.Sign() == 0 {
				ok = false
			} else {
				r.Quo(x, y)
			}
		case "bvurem":
			if y.Sign() == 0 {
				ok = false
			} else {
				r.Rem(x, y)
			}
		case "bvsdiv":
			if y.Sign() == 0 {
				ok = false
			} else {
				r.Quo(toSigned(x, w), toSigned(y, w))
			}
		case "bvsrem":
			if y.Sign() == 0 {
				ok = false
			} else {
				r.Rem(toSigned(x, w), toSigned(y, w))
			}
		default:
			ok = false
		}
		if ok {
			return c.BVC(w, r)
		}
	}
	// light identities
	switch op {
	case "bvadd", "bvor", "bvxor":
		if a.IsConst() && a.Val.Sign() == 0 {
			return b
		}
		if b.IsConst() && b.Val.Sign() == 0 {
			return a
		}
	case "bvsub", "bvshl", "bvlshr":
		if b.IsConst() && b.Val.Sign() == 0 {
			return a
		}
	case "bvand":
		if (a.IsConst() && a.Val.Sign() == 0) || (b.IsConst() && b.Val.Sign() == 0) {
			return c.BVC64(w, 0)
		}
		if a.IsConst() && a.Val.Cmp(mask(w)) == 0 {
			return b
		}
		if b.IsConst() && b.Val.Cmp(mask(w)) == 0 {
			return a
		}
	}
	return c.mk(op, a.Sort, a, b)
}

func (c *Ctx) BVCmp(op string, a, b *Term) *Term {
	w := a.Sort.W
	if a.Sort != b.Sort {
		panic(fmt.Sprintf("smt.BVCmp %s: sort mismatch %v %v", op, a.Sort, b.Sort))
	}
	if a.IsConst() && b.IsConst() {
		var k int
		if op[2] == 's' {
			k = toSigned(a.Val, w).Cmp(toSigned(b.Val, w))
		} else {
			k = a.Val.Cmp(b.Val)
		}
		switch op[3:] {
		case "lt":
			return c.BoolC(k < 0)
		case "le":
			return c.BoolC(k <= 0)
		case "gt":
			return c.BoolC(k > 0)
		case "ge":
			return c.BoolC(k >= 0)
		}
	}
	return c.mk(op, Bool, a, b)
}

func (c *Ctx) BVNot(a *Term) *Term {
	if a.IsConst() {
		return c.BVC(a.Sort.W, new(big.Int).Xor(a.Val, mask(a.Sort.W)))
	}
	return c.mk("bvnot", a.Sort, a)
}

func (c *Ctx) BVNeg(a *Term) *Term {
	if a.IsConst() {
		return c.BVC(a.Sort.W, new(big.Int).Neg(a.Val))
	}
	return c.mk("bvneg", a.Sort, a)
}

func (c *Ctx) Extract(hi, lo int, a *Term) *Term {
	if hi == a.Sort.W-1 && lo == 0 {
		return a
	}
	if a.IsConst() {
		v := new(big.Int).Rsh(a.Val, uint(lo))
		return c.BVC(hi-lo+1, v)
	}
	// extract of zero/sign-extended value within the original width
	if (a.Op == "zero_extend" || a.Op == "sign_extend") && hi < a.Args[0].Sort.W {
		return c.Extract(hi, lo, a.Args[0])
	}
	if a.Op == "concat" {
		lw := a.Args[1].Sort.W
		if hi < lw {
			return c.Extract(hi, lo, a.Args[1])
		}
		if lo >= lw {
			return c.Extract(hi-lw, lo-lw, a.Args[0])
		}
	}
	return c.intern(&Term{Op: "extract", Sort: BV(hi - lo + 1), Args: []*Term{a}, Aux: [2]int{hi, lo}})
}

func (c *Ctx) ZeroExt(n int, a *Term) *Term {
	if n == 0 {
		return a
	}
	if a.IsConst() {
		return c.BVC(a.Sort.W+n, a.Val)
	}
	if a.Op == "ite" && constLeaves(a) {
		return c.Ite(a.Args[0], c.ZeroExt(n, a.Args[1]), c.ZeroExt(n, a.Args[2]))
	}
	return c.intern(&Term{Op: "zero_extend", Sort: BV(a.Sort.W + n), Args: []*Term{a}, Aux: [2]int{n, 0}})
}

func (c *Ctx) SignExt(n int, a *Term) *Term {
	if n == 0 {
		return a
	}
	if a.IsConst() {
		return c.BVC(a.Sort.W+n, toSigned(a.Val, a.Sort.W))
	}
	if a.Op == "ite" && constLeaves(a) {
		return c.Ite(a.Args[0], c.SignExt(n, a.Args[1]), c.SignExt(n, a.Args[2]))
	}
	return c.intern(&Term{Op: "sign_extend", Sort: BV(a.Sort.W + n), Args: []*Term{a}, Aux: [2]int{n, 0}})
}

func (c *Ctx) Concat(hi, lo *Term) *Term {
	// adjacent extracts of the same term merge (byte arrays re-assembled into the value
	// they were cut from)
	if hi.Op == "extract" && lo.Op == "extract" && hi.Args[0] == lo.Args[0] && hi.Aux[1] == lo.Aux[0]+1 {
		return c.Extract(hi.Aux[0], lo.Aux[1], hi.Args[0])
	}
	if hi.Op == "concat" && hi.Args[1].Op == "extract" && lo.Op == "extract" &&
		hi.Args[1].Args[0] == lo.Args[0] && hi.Args[1].Aux[1] == lo.Aux[0]+1 {
		return c.Concat(hi.Args[0], c.Extract(hi.Args[1].Aux[0], lo.Aux[1], lo.Args[0]))
	}
	if hi.IsConst() && lo.IsConst() {
		v := new(big.Int).Lsh(hi.Val, uint(lo.Sort.W))
		v.Or(v, lo.Val)
		return c.BVC(hi.Sort.W+lo.Sort.W, v)
	}
	return c.mk("concat", BV(hi.Sort.W+lo.Sort.W), hi, lo)
}

// BV2Nat converts an (unsigned) bit-vector to Int.
func (c *Ctx) BV2Nat(a *Term) *Term {
	if a.IsConst() {
		return c.IntC(a.Val)
	}
	if a.Op == "ite" && constLeaves(a) {
		return c.Ite(a.Args[0], c.BV2Nat(a.Args[1]), c.BV2Nat(a.Args[2]))
	}
	if a.Op == "concat" && a.Args[0].IsConst() && a.Args[0].Val.Sign() == 0 {
		// leading zero bits do not change the value
		return c.BV2Nat(a.Args[1])
	}
	if a.Op == "int2bv" {
		// the integer was a canonical residue below 2^w: the round trip is the identity
		t := a.Args[0]
		if t.Op == "mod" && t.Args[1].IsConst() && t.Args[1].Val.Sign() > 0 && t.Args[1].Val.BitLen() <= a.Sort.W {
			return t
		}
		// in general bv2nat(int2bv_w(t)) = t mod 2^w: stay in the integer theory
		return c.Mod(t, c.IntC(new(big.Int).Lsh(big.NewInt(1), uint(a.Sort.W))))
	}
	return c.mk("bv2nat", Int, a)
}

// BV2Int converts a signed bit-vector to Int.
func (c *Ctx) BV2IntSigned(a *Term) *Term {
	if a.IsConst() {
		return c.IntC(toSigned(a.Val, a.Sort.W))
	}
	if a.Op == "ite" && constLeaves(a) {
		return c.Ite(a.Args[0], c.BV2IntSigned(a.Args[1]), c.BV2IntSigned(a.Args[2]))
	}
	w := a.Sort.W
	n := c.BV2Nat(a)
	half := new(big.Int).Lsh(big.NewInt(1), uint(w-1))
	full := new(big.Int).Lsh(big.NewInt(1), uint(w))
	return c.Ite(c.Ge(n, c.IntC(half)), c.Sub(n, c.IntC(full)), n)
}

// Int2BV truncates an Int to w bits (two's complement, i.e. mod 2^w).
func (c *Ctx) Int2BV(w int, a *Term) *Term {
	if a.IsConst() {
		return c.BVC(w, a.Val)
	}
	if a.Op == "bv2nat" && a.Args[0].Sort.W == w {
		return a.Args[0]
	}
	return c.intern(&Term{Op: "int2bv", Sort: BV(w), Args: []*Term{a}, Aux: [2]int{w, 0}})
}
