package smt

import (
	"fmt"
	"sort"
	"strings"
)

func symName(n string) string {
	for _, r := range n {
		if !(r >= 'a' && r <= 'z' || r >= 'A' && r <= 'Z' || r >= '0' && r <= '9' || r == '_' || r == '.' || r == '!') {
			return "|" + strings.ReplaceAll(n, "|", "_") + "|"
		}
	}
	return n
}

func constText(t *Term) string {
	switch t.Sort.K {
	case KBool:
		if t.Val.Sign() != 0 {
			return "true"
		}
		return "false"
	case KInt:
		if t.Val.Sign() < 0 {
			return "(- " + t.Val.String()[1:] + ")"
		}
		return t.Val.String()
	}
	return fmt.Sprintf("(_ bv%s %d)", t.Val.String(), t.Sort.W)
}

// Script renders a satisfiability query for the conjunction of asserts.
// Every shared inner node is emitted once as a zero-ary define-fun.
func (c *Ctx) Script(asserts []*Term) string {
	var sb strings.Builder
	// collect reachable nodes
	seen := map[int]bool{}
	var order []*Term
	var walk func(t *Term)
	walk = func(t *Term) {
		if seen[t.ID] {
			return
		}
		seen[t.ID] = true
		for _, a := range t.Args {
			walk(a)
		}
		order = append(order, t)
	}
	for _, a := range asserts {
		walk(a)
	}
	usedFun := map[string]bool{}
	var vars []*Term
	for _, t := range order {
		switch t.Op {
		case "var":
			vars = append(vars, t)
		case "app":
			usedFun[t.Name] = true
		}
	}
	sort.Slice(vars, func(i, j int) bool { return vars[i].ID < vars[j].ID })
	for _, v := range vars {
		fmt.Fprintf(&sb, "(declare-fun %s () %s)\n", symName(v.Name), v.Sort)
	}
	for _, fn := range c.FunOrd {
		if !usedFun[fn] {
			continue
		}
		fd := c.Funs[fn]
		sb.WriteString("(declare-fun " + symName(fn) + " (")
		for i, a := range fd.Args {
			if i > 0 {
				sb.WriteByte(' ')
			}
			sb.WriteString(a.String())
		}
		sb.WriteString(") " + fd.Ret.String() + ")\n")
	}
	ref := func(t *Term) string {
		switch t.Op {
		case "const":
			return constText(t)
		case "var":
			return symName(t.Name)
		}
		return fmt.Sprintf("n%d", t.ID)
	}
	for _, t := range order {
		if t.Op == "const" || t.Op == "var" {
			continue
		}
		var head string
		switch t.Op {
		case "app":
			head = symName(t.Name)
		case "extract":
			head = fmt.Sprintf("(_ extract %d %d)", t.Aux[0], t.Aux[1])
		case "zero_extend", "sign_extend":
			head = fmt.Sprintf("(_ %s %d)", t.Op, t.Aux[0])
		case "int2bv":
			head = fmt.Sprintf("(_ int2bv %d)", t.Aux[0])
		default:
			head = t.Op
		}
		fmt.Fprintf(&sb, "(define-fun n%d () %s (%s", t.ID, t.Sort, head)
		for _, a := range t.Args {
			sb.WriteByte(' ')
			sb.WriteString(ref(a))
		}
		sb.WriteString("))\n")
	}
	for _, a := range asserts {
		fmt.Fprintf(&sb, "(assert %s)\n", ref(a))
	}
	return sb.String()
}

// VarsIn returns the variables occurring in the given terms.
func VarsIn(ts []*Term) []*Term {
	seen := map[int]bool{}
	var out []*Term
	var walk func(t *Term)
	walk = func(t *Term) {
		if seen[t.ID] {
			return
		}
		seen[t.ID] = true
		if t.Op == "var" {
			out = append(out, t)
		}
		for _, a := range t.Args {
			walk(a)
		}
	}
	for _, t := range ts {
		walk(t)
	}
	sort.Slice(out, func(i, j int) bool { return out[i].ID < out[j].ID })
	return out
}

// String renders a term as a (possibly large) s-expression, for debugging.
func (t *Term) String() string {
	switch t.Op {
	case "const":
		return constText(t)
	case "var":
		return t.Name
	}
	var sb strings.Builder
	sb.WriteByte('(')
	if t.Op == "app" {
		sb.WriteString(t.Name)
	} else {
		sb.WriteString(t.Op)
	}
	for _, a := range t.Args {
		sb.WriteByte(' ')
		sb.WriteString(a.String())
	}
	sb.WriteByte(')')
	return sb.String()
}
