//go:build verif

package common

import (
	"math/big"

	v "github.com/bnb-chain/tss-lib/v2/zzverifapi"
)

// shape bounds of the quick tier; the thorough tier harnesses use 4.
func verifTupleBytes(name string, maxN, maxL int) [][]byte {
	n := v.NondetInt(name+"_n", 1, maxN)
	out := make([][]byte, 0, maxN)
	for i := 0; i < n; i++ {
		l := v.NondetInt(v.Name(name+"_len", i), 0, maxL)
		out = append(out, v.NondetBytes(v.Name(name, i), l))
	}
	return out
}

func verifSameTuple(a, b [][]byte) bool {
	if len(a) != len(b) {
		return false
	}
	acc := true
	for i := range a {
		if len(a[i]) != len(b[i]) {
			return false
		}
		acc = v.All(acc, v.EqBytes(a[i], b[i]))
	}
	return acc
}

func verifC16Bytes(maxN, maxL int) {
	a := verifTupleBytes("a", maxN, maxL)
	b := verifTupleBytes("b", maxN, maxL)
	ha := SHA512_256(a...)
	hb := SHA512_256(b...)
	v.Assert("sha512_256-framing-injective", v.Implies(v.EqBytes(ha, hb), verifSameTuple(a, b)))
	v.Reach("end")
}

// C16: SHA512_256(in...) maps different byte-string tuples to different
// pre-images (hence, H being collision resistant, to different digests).
func VerifHarness_C16_bytes_framing_3x3() { verifC16Bytes(3, 3) }
func VerifHarness_C16_bytes_framing_4x4() { verifC16Bytes(4, 4) }

// integers with minimal big-endian encoding: first byte non-zero, or the empty
// encoding of 0.
func verifTupleInts(name string, maxN, maxL int) ([]*big.Int, [][]byte) {
	n := v.NondetInt(name+"_n", 1, maxN)
	ints := make([]*big.Int, 0, maxN)
	raw := make([][]byte, 0, maxN)
	for i := 0; i < n; i++ {
		l := v.NondetInt(v.Name(name+"_len", i), 0, maxL)
		bs := v.NondetBytes(v.Name(name, i), l)
		if l > 0 {
			v.Assume("minimal-encoding", bs[0] != 0)
		}
		ints = append(ints, new(big.Int).SetBytes(bs))
		raw = append(raw, bs)
	}
	return ints, raw
}

func verifC16Ints(maxN, maxL int) {
	v.NoSummaries() // the real framing code is the subject here
	a, ra := verifTupleInts("a", maxN, maxL)
	b, rb := verifTupleInts("b", maxN, maxL)
	ha := SHA512_256i(a...)
	hb := SHA512_256i(b...)
	v.Assert("sha512_256i-framing-injective", v.Implies(v.EqInt(ha, hb), verifSameTuple(ra, rb)))
	v.Reach("end")
}

func VerifHarness_C16_ints_framing_3x3() { verifC16Ints(3, 3) }

// tagged variant: distinct tags or distinct tuples give distinct digests
func verifC16Tagged(maxN, maxL, maxT int) {
	v.NoSummaries() // the real framing code is the subject here
	ta := v.NondetBytes("ta", v.NondetInt("ta_len", 0, maxT))
	tb := v.NondetBytes("tb", v.NondetInt("tb_len", 0, maxT))
	a, ra := verifTupleInts("a", maxN, maxL)
	b, rb := verifTupleInts("b", maxN, maxL)
	ha := SHA512_256i_TAGGED(ta, a...)
	hb := SHA512_256i_TAGGED(tb, b...)
	same := v.All(len(ta) == len(tb), v.EqBytes(ta, tb), verifSameTuple(ra, rb))
	v.Assert("sha512_256i_tagged-framing-injective", v.Implies(v.EqInt(ha, hb), same))
	v.Reach("end")
}

func VerifHarness_C16_tagged_framing_2x2() { verifC16Tagged(2, 2, 2) }

// a single long integer against a short tuple: the length of the long element equals the
// length of the whole framed pre-image of the short tuple (8 + sum(len_i + 9) bytes), which
// is where an element could masquerade as a frame. Both the plain and the tagged hash.
func verifC16LongSingle(tagged bool) {
	v.NoSummaries()
	b, rb := verifTupleInts("b", 2, 1)
	frame := 8
	for _, r := range rb {
		frame += len(r) + 9
	}
	xb := v.NondetBytes("x", frame)
	v.Assume("minimal-encoding", xb[0] != 0)
	x := new(big.Int).SetBytes(xb)
	var hx, hb *big.Int
	if tagged {
		hx, hb = SHA512_256i_TAGGED([]byte("t"), x), SHA512_256i_TAGGED([]byte("t"), b...)
	} else {
		hx, hb = SHA512_256i(x), SHA512_256i(b...)
	}
	same := len(rb) == 1 && len(rb[0]) == frame && v.EqBytes(rb[0], xb)
	v.Assert("long-element-is-not-a-frame", v.Implies(v.EqInt(hx, hb), same))
	v.Reach("end")
}

func VerifHarness_C16_ints_long_single_vs_tuple()   { verifC16LongSingle(false) }
func VerifHarness_C16_tagged_long_single_vs_tuple() { verifC16LongSingle(true) }
