//go:build verif

package common

import (
	"math/big"

	v "github.com/bnb-chain/tss-lib/v2/zzverifapi"
)

// C19, sampling helpers: the REAL code (no summaries) with a symbolic bound of any size and
// sign and symbolic reader output; rejection loops are unrolled 3 times (unwinding
// assumption). These contracts are what the protocol-level harnesses use as summaries.

var verifTwoTo5000 = new(big.Int).Lsh(big.NewInt(1), 5000)

func VerifHarness_C19_getrandompositiveint_any_bound() {
	v.NoSummaries()
	v.UnwindAssume(3)
	b := v.NondetBigInt("bound")
	v.Assume("bound-at-most-5000-bits", b.Cmp(verifTwoTo5000) < 0) // MustGetRandomInt's documented limit
	r := GetRandomPositiveInt(v.Reader("r"), b)
	if b.Sign() <= 0 {
		v.Assert("nil-for-non-positive-bound", r == nil)
		v.Reach("refused")
		return
	}
	v.Assert("non-nil-for-positive-bound", r != nil)
	if r == nil {
		return
	}
	v.Assert("result-in-[0,bound)", r.Sign() >= 0 && r.Cmp(b) < 0)
	v.Reach("end")
}

func VerifHarness_C19_getrandompositiveint_nil_bound() {
	v.NoSummaries()
	v.Assert("nil-for-nil-bound", GetRandomPositiveInt(v.Reader("r"), nil) == nil)
	v.Reach("end")
}

func VerifHarness_C19_mustgetrandomint_bits() {
	v.NoSummaries()
	cands := []int{1, 2, 7, 8, 9, 63, 64, 65, 255, 256, 257, 2048, 4999, 5000}
	bits := cands[v.NondetInt("i", 0, len(cands)-1)]
	r := MustGetRandomInt(v.Reader("r"), bits)
	lim := new(big.Int).Lsh(big.NewInt(1), uint(bits))
	v.Assert("result-below-2^bits", r.Sign() >= 0 && r.Cmp(lim) < 0)
	v.Reach("end")
}

func VerifHarness_C19_relativelyprime_any_modulus() {
	v.NoSummaries()
	v.UnwindAssume(3)
	n := v.NondetBigInt("n")
	v.Assume("bound-at-most-5000-bits", n.Cmp(verifTwoTo5000) < 0)
	r := GetRandomPositiveRelativelyPrimeInt(v.Reader("r"), n)
	if n.Sign() <= 0 {
		v.Assert("nil-for-non-positive-modulus", r == nil)
		v.Reach("refused")
		return
	}
	v.Assert("non-nil", r != nil)
	if r == nil {
		return
	}
	g := new(big.Int).GCD(nil, nil, r, n)
	v.Assert("result-in-[1,n)-and-coprime", r.Sign() > 0 && r.Cmp(n) < 0 && g.Cmp(big.NewInt(1)) == 0)
	v.Assert("is-in-multiplicative-group", IsNumberInMultiplicativeGroup(n, r))
	v.Reach("end")
}

func VerifHarness_C19_quadratic_non_residue_odd_modulus() {
	v.NoSummaries()
	v.UnwindAssume(3)
	n := v.NondetNat("n")
	v.Assume("odd-modulus-at-least-3", n.Bit(0) == 1 && n.Cmp(big.NewInt(3)) >= 0)
	v.Assume("bound-at-most-5000-bits", n.Cmp(verifTwoTo5000) < 0)
	w := GetRandomQuadraticNonResidue(v.Reader("r"), n)
	v.Assert("jacobi-symbol-is-minus-one", big.Jacobi(w, n) == -1)
	v.Assert("result-in-[0,n)", w.Sign() >= 0 && w.Cmp(n) < 0)
	v.Reach("end")
}

func VerifHarness_C19_generator_of_quadratic_residues() {
	v.NoSummaries()
	v.UnwindAssume(3)
	n := v.NondetNat("n")
	v.Assume("modulus-at-least-2", n.Cmp(big.NewInt(2)) >= 0)
	v.Assume("bound-at-most-5000-bits", n.Cmp(verifTwoTo5000) < 0)
	var f *big.Int
	rd := v.ReaderWith("r", func(k int, x *big.Int) bool { f = x; return true })
	h := GetRandomGeneratorOfTheQuadraticResidue(rd, n)
	// the result is the square of the last (accepted) sample, and that sample is a unit
	sq := new(big.Int).Mul(f, f)
	v.Assert("result-is-a-square-of-a-unit", h.Cmp(sq.Mod(sq, n)) == 0 && new(big.Int).GCD(nil, nil, f, n).Cmp(big.NewInt(1)) == 0)
	v.Assert("result-in-[0,n)", h.Sign() >= 0 && h.Cmp(n) < 0)
	v.Reach("end")
}

func VerifHarness_C19_getrandombytes() {
	v.NoSummaries()
	n := v.NondetInt("n", -2, 40)
	b, err := GetRandomBytes(v.Reader("r"), n)
	if n <= 0 {
		v.Assert("error-for-non-positive-length", err != nil && b == nil)
		v.Reach("refused")
		return
	}
	v.Assert("n-bytes", err == nil && len(b) == n)
	v.Reach("end")
}
