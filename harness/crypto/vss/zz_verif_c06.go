//go:build verif

package vss

import (
	"crypto/elliptic"
	"math/big"

	"github.com/bnb-chain/tss-lib/v2/crypto"
	"github.com/bnb-chain/tss-lib/v2/tss"
	v "github.com/bnb-chain/tss-lib/v2/zzverifapi"
)

func verifHostilePoint(name string, ec elliptic.Curve) *crypto.ECPoint {
	// every point of secp256k1 (cofactor 1) other than the identity is k*G; on edwards25519
	// this is the prime-order subgroup (small-order components: the C17 harnesses)
	k := v.NondetNat(name + "_k")
	v.Assume("hostile-point-not-identity", !v.CongMod(k, big.NewInt(0), ec.Params().N))
	return crypto.ScalarBaseMult(ec, k)
}

// C06 family 1: Share.Verify returns for every share value, id and on-curve commitments.
func verifC06ShareVerify(ec elliptic.Curve, t int) {
	vs := make(Vs, t+1)
	for k := range vs {
		vs[k] = verifHostilePoint(v.Name("V", k), ec)
	}
	sh := &Share{Threshold: t, ID: v.NondetNat("id"), Share: v.NondetNat("share")}
	_ = sh.Verify(ec, t, vs)
	v.Reach("end")
}

func VerifHarness_C06_vss_share_verify_t1_secp() { verifC06ShareVerify(tss.S256(), 1) }
func VerifHarness_C06_vss_share_verify_t1_ed()   { verifC06ShareVerify(tss.Edwards(), 1) }

// ReConstruct on any number 0..3 of shares with arbitrary ids and values
func VerifHarness_C06_vss_reconstruct_any_secp() {
	ec := tss.S256()
	n := v.NondetInt("n", 0, 3)
	shares := make(Shares, 0, 3)
	for i := 0; i < n; i++ {
		shares = append(shares, &Share{Threshold: v.NondetInt(v.Name("thr", i), 0, 3), ID: v.NondetNat(v.Name("id", i)), Share: v.NondetNat(v.Name("share", i))})
	}
	_, _ = shares.ReConstruct(ec)
	v.Reach("end")
}

func VerifHarness_C06_vss_checkindexes_secp() {
	ec := tss.S256()
	n := v.NondetInt("n", 0, 3)
	ids := make([]*big.Int, 0, 3)
	for i := 0; i < n; i++ {
		ids = append(ids, v.NondetBigInt(v.Name("id", i)))
	}
	_, _ = CheckIndexes(ec, ids)
	v.Reach("end")
}
