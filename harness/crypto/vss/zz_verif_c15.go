//go:build verif

package vss

import (
	"crypto/elliptic"
	"math/big"

	"github.com/bnb-chain/tss-lib/v2/crypto"
	"github.com/bnb-chain/tss-lib/v2/tss"
	v "github.com/bnb-chain/tss-lib/v2/zzverifapi"
)

// ids: arbitrary non-negative integers of any size (so id = q, id > q and
// id ≡ id' (mod q) are inside the bound), assumed admissible where stated.
func verifIDs(ec elliptic.Curve, n int, admissible bool) []*big.Int {
	q := ec.Params().N
	ids := make([]*big.Int, n)
	for i := range ids {
		ids[i] = v.NondetNat(v.Name("id", i))
	}
	if admissible {
		for i := range ids {
			v.Assume("id-nonzero-mod-q", !v.CongMod(ids[i], big.NewInt(0), q))
			for j := 0; j < i; j++ {
				v.Assume("ids-distinct-mod-q", !v.CongMod(ids[i], ids[j], q))
			}
		}
	}
	return ids
}

// spec polynomial value f(x) mod q from the secret and the sampler's outputs
func verifPoly(q *big.Int, coef []*big.Int, x *big.Int) *big.Int {
	acc := new(big.Int)
	for k := len(coef) - 1; k >= 0; k-- {
		acc.Mul(acc, x)
		acc.Add(acc, coef[k])
	}
	return acc.Mod(acc, q)
}

// the coefficients the dealer sampled are exactly the reader's outputs r#0.. (summary of GetRandomPositiveInt)
func verifCreate(ec elliptic.Curve, t, n int) (secret *big.Int, ids []*big.Int, vs Vs, shares Shares) {
	q := ec.Params().N
	secret = v.NondetNat("secret")
	v.Assume("secret-in-Zq", v.InRange(secret, big.NewInt(1), q))
	ids = verifIDs(ec, n, true)
	var err error
	// coins excluded: a sampled coefficient equal to 0 (probability 2^-256 each; it makes
	// crypto.ScalarBaseMult panic on secp256k1 — recorded as an observation in DESIGN.md)
	coef := []*big.Int{secret}
	rd := v.ReaderWith("r", func(k int, x *big.Int) bool { coef = append(coef, x); return x.Sign() != 0 })
	vs, shares, err = Create(ec, t, secret, ids, rd)
	v.Assert("create-succeeds-on-admissible-ids", err == nil)
	if err != nil {
		return
	}
	// coins excluded: for some dealt id a partial sum a_0+..+a_j*id^j (j<t) is ≡ 0 (an
	// intermediate point of Verify is the identity); probability <= n*t/q
	for _, id := range ids {
		for j := 0; j < t && j < len(coef); j++ {
			v.Assume("no-intermediate-identity", !v.CongMod(verifPoly(q, coef[:j+1], id), big.NewInt(0), q))
		}
	}
	v.Assert("len-vs", len(vs) == t+1)
	v.Assert("len-shares", len(shares) == n)
	return
}

func verifC15VerifyOwn(ec elliptic.Curve, t, n int) {
	_, ids, vs, shares := verifCreate(ec, t, n)
	if shares == nil {
		return
	}
	q := ec.Params().N
	for i, sh := range shares {
		// coin excluded: an honest share ≡ 0 (mod q) (probability 2^-256)
		v.Assume("honest-share-nonzero", !v.CongMod(sh.Share, big.NewInt(0), q))
		v.Assert("share-carries-its-id", v.EqInt(sh.ID, ids[i]))
		v.Assert("share-verifies-under-own-id", sh.Verify(ec, t, vs))
	}
	v.Reach("end")
}

// exactness: for commitments to an arbitrary polynomial, Verify(id', s') is true
// iff s' ≡ f(id') (mod q)
func verifC15VerifyExact(ec elliptic.Curve, t int) {
	q := ec.Params().N
	coef := make([]*big.Int, t+1)
	vs := make(Vs, t+1)
	for k := range coef {
		coef[k] = v.NondetNat(v.Name("a", k))
		v.Assume("coefficient-in-Zq*", v.InRange(coef[k], big.NewInt(1), q))
		vs[k] = crypto.ScalarBaseMult(ec, coef[k])
	}
	id := v.NondetNat("probe_id")
	s := v.NondetNat("probe_share")
	v.Assume("probe-share-nonzero-mod-q", !v.CongMod(s, big.NewInt(0), q)) // Share ≡ 0 panics: C06/F5, checked separately
	v.Assume("probe-id-nonzero-mod-q", !v.CongMod(id, big.NewInt(0), q))   // ID ≡ 0 panics on secp256k1: C06, checked separately
	// excluded event: a partial sum a_0 + ... + a_j*id^j (j < t) is ≡ 0, i.e. an intermediate
	// point is the identity (on secp256k1 Verify then returns false for a valid share);
	// probability <= t/q for honestly sampled coefficients
	for j := 0; j < t; j++ {
		v.Assume("no-intermediate-identity", !v.CongMod(verifPoly(q, coef[:j+1], id), big.NewInt(0), q))
	}
	got :=(&Share{Threshold: t, ID: id, Share: s}).Verify(ec, t, vs)
	want := v.CongMod(s, verifPoly(q, coef, id), q)
	v.Assert("verify-exact", v.Iff(got, want))
	v.Reach("end")
}

func VerifHarness_C15_verify_exact_t1_secp() { verifC15VerifyExact(tss.S256(), 1) }
func VerifHarness_C15_verify_exact_t2_secp() { verifC15VerifyExact(tss.S256(), 2) }
func VerifHarness_C15_verify_exact_t2_ed()   { verifC15VerifyExact(tss.Edwards(), 2) }

func verifC15Reconstruct(ec elliptic.Curve, t, n int, subset []int) {
	q := ec.Params().N
	secret, _, _, shares := verifCreate(ec, t, n)
	if shares == nil {
		return
	}
	sub := make(Shares, 0, len(subset))
	for _, i := range subset {
		sub = append(sub, shares[i])
	}
	got, err := sub.ReConstruct(ec)
	v.Assert("reconstruct-no-error", err == nil)
	v.Assert("reconstruct-secret", v.CongMod(got, secret, q))
	v.Assert("reconstruct-canonical", v.InRange(got, big.NewInt(0), q))
	v.Reach("end")
}

func VerifHarness_C15_verify_own_t1n2_secp()     { verifC15VerifyOwn(tss.S256(), 1, 2) }
func VerifHarness_C15_verify_own_t2n3_secp()     { verifC15VerifyOwn(tss.S256(), 2, 3) }
func VerifHarness_C15_verify_own_t1n2_ed()       { verifC15VerifyOwn(tss.Edwards(), 1, 2) }
func VerifHarness_C15_reconstruct_t1n2_secp()    { verifC15Reconstruct(tss.S256(), 1, 2, []int{0, 1}) }
func VerifHarness_C15_reconstruct_t1n3_02_secp() { verifC15Reconstruct(tss.S256(), 1, 3, []int{0, 2}) }
func VerifHarness_C15_reconstruct_t2n3_secp()    { verifC15Reconstruct(tss.S256(), 2, 3, []int{0, 1, 2}) }
func VerifHarness_C15_reconstruct_t1n3_all_secp() {
	verifC15Reconstruct(tss.S256(), 1, 3, []int{0, 1, 2})
}
func VerifHarness_C15_reconstruct_t2n4_ed() { verifC15Reconstruct(tss.Edwards(), 2, 4, []int{3, 1, 0}) }

// Create refuses an id ≡ 0 (mod q) and two ids congruent mod q; accepts otherwise.
func verifC15CreateRefuses(ec elliptic.Curve, t, n int) {
	q := ec.Params().N
	secret := v.NondetNat("secret")
	v.Assume("secret-in-Zq*", v.InRange(secret, big.NewInt(1), q))
	ids := verifIDs(ec, n, false)
	bad := false
	for i := range ids {
		bad = v.Any(bad, v.CongMod(ids[i], big.NewInt(0), q))
		for j := 0; j < i; j++ {
			bad = v.Any(bad, v.CongMod(ids[i], ids[j], q))
		}
	}
	rd := v.ReaderWith("r", func(k int, x *big.Int) bool { return x.Sign() != 0 })
	_, _, err := Create(ec, t, secret, ids, rd)
	v.Assert("create-refuses-exactly-bad-ids", v.Iff(err != nil, bad))
	v.Reach("end")
}

func VerifHarness_C15_create_refuses_t1n2_secp() { verifC15CreateRefuses(tss.S256(), 1, 2) }
func VerifHarness_C15_create_refuses_t1n3_ed()   { verifC15CreateRefuses(tss.Edwards(), 1, 3) }
