//go:build verif

package schnorr

import (
	"crypto/elliptic"
	"math/big"

	"github.com/bnb-chain/tss-lib/v2/crypto"
	"github.com/bnb-chain/tss-lib/v2/tss"
	v "github.com/bnb-chain/tss-lib/v2/zzverifapi"
)

// C10: an honestly generated Schnorr proof verifies under the same session, for every
// witness x in [1,q) (x = 0 has no point X on secp256k1), every coin.
func verifC10ZK(ec elliptic.Curve) {
	// coin excluded: a Fiat-Shamir challenge that is 0 modulo the group order
	v.Summarise("challenge-independent")
	q := ec.Params().N
	x := v.NondetNat(verifC10Pfx + "x")
	v.Assume("witness-in-Zq*", v.InRange(x, big.NewInt(1), q))
	X := crypto.ScalarBaseMult(ec, x)
	// coins excluded: nonce a = 0, response t = 0 mod q (probability 2^-256 each)
	rd := v.ReaderWith(verifC10Pfx+"r", func(k int, a *big.Int) bool { return a.Sign() != 0 })
	pf, err := NewZKProof(verifSession(), x, X, rd)
	v.Assert("prover-succeeds", err == nil)
	if err != nil {
		return
	}
	v.Assume("response-nonzero", pf.T.Sign() != 0)
	v.Assert("honest-proof-verifies", pf.Verify(verifSession(), X))
	v.Reach("end")
}

var verifC10Pfx = ""

func VerifHarness_C10_schnorr_zk_secp() { verifC10ZK(tss.S256()) }

// a multi-step history in one process: proofs on one curve, then on the other (process-wide
// state such as a cached group order or base point must not leak from one curve to the next)
func VerifHarness_C10_schnorr_zk_ed_then_secp() {
	verifC10ZK(tss.Edwards())
	verifC10Pfx = "second_"
	verifC10ZK(tss.S256())
	v.Reach("both-curves")
}
func VerifHarness_C10_schnorr_zk_secp_then_ed() {
	verifC10ZK(tss.S256())
	verifC10Pfx = "second_"
	verifC10ZK(tss.Edwards())
	v.Reach("both-curves")
}
func VerifHarness_C10_schnorr_zk_ed()   { verifC10ZK(tss.Edwards()) }

// the two-witness proof (V = s*R + l*G): honest proofs verify, for every witness pair,
// every base point R = k*G and every coin
func verifC10ZKV(ec elliptic.Curve) {
	v.Summarise("challenge-independent")
	q := ec.Params().N
	s, l, k := v.NondetNat("s"), v.NondetNat("l"), v.NondetNat("k")
	v.Assume("witness-in-Zq*", v.All(v.InRange(s, big.NewInt(1), q), v.InRange(l, big.NewInt(1), q), v.InRange(k, big.NewInt(1), q)))
	R := crypto.ScalarBaseMult(ec, k)
	V, err := R.ScalarMult(s).Add(crypto.ScalarBaseMult(ec, l))
	if err != nil {
		return // V is the identity: not a statement on secp256k1
	}
	sk := new(big.Int).Mul(s, k)
	v.Assume("statement-not-identity", !v.CongMod(sk.Add(sk, l), big.NewInt(0), q))
	// coins excluded: a = 0, b = 0, commitment = identity, responses = 0 mod q
	var a0 *big.Int
	rd := v.ReaderWith("r", func(i int, a *big.Int) bool {
		if i == 0 {
			a0 = a
			return a.Sign() != 0
		}
		ak := new(big.Int).Mul(a0, k)
		return a.Sign() != 0 && !v.CongMod(ak.Add(ak, a), big.NewInt(0), q)
	})
	pf, err := NewZKVProof(verifSession(), V, R, s, l, rd)
	v.Assert("prover-succeeds", err == nil)
	if err != nil {
		return
	}
	v.Assume("responses-nonzero", pf.T.Sign() != 0 && pf.U.Sign() != 0)
	// coin excluded: t*R + u*G is the identity (probability 1/q over the challenge)
	tk := new(big.Int).Mul(pf.T, k)
	v.Assume("verification-point-not-identity", !v.CongMod(tk.Add(tk, pf.U), big.NewInt(0), q))
	v.Assert("honest-proof-verifies", pf.Verify(verifSession(), V, R))
	v.Reach("end")
}

func VerifHarness_C10_schnorr_zkv_secp() { verifC10ZKV(tss.S256()) }
func VerifHarness_C10_schnorr_zkv_ed()   { verifC10ZKV(tss.Edwards()) }
