//go:build verif

package schnorr

import (
	"crypto/elliptic"
	"math/big"

	"github.com/bnb-chain/tss-lib/v2/crypto"
	"github.com/bnb-chain/tss-lib/v2/tss"
	v "github.com/bnb-chain/tss-lib/v2/zzverifapi"
)

// C10: an honestly generated Schnorr proof verifies under the same session, for every
// witness x in [1,q) (x = 0 has no point X on secp256k1), every coin.
func verifC10ZK(ec elliptic.Curve) {
	// coin excluded: a Fiat-Shamir challenge that is 0 modulo the group order
	v.Summarise("challenge-independent")
	q := ec.Params().N
	x := v.NondetNat("x")
	v.Assume("witness-in-Zq*", v.InRange(x, big.NewInt(1), q))
	X := crypto.ScalarBaseMult(ec, x)
	// coins excluded: nonce a = 0, response t = 0 mod q (probability 2^-256 each)
	rd := v.ReaderWith("r", func(k int, a *big.Int) bool { return a.Sign() != 0 })
	pf, err := NewZKProof(verifSession(), x, X, rd)
	v.Assert("prover-succeeds", err == nil)
	if err != nil {
		return
	}
	v.Assume("response-nonzero", pf.T.Sign() != 0)
	v.Assert("honest-proof-verifies", pf.Verify(verifSession(), X))
	v.Reach("end")
}

func VerifHarness_C10_schnorr_zk_secp() { verifC10ZK(tss.S256()) }
func VerifHarness_C10_schnorr_zk_ed()   { verifC10ZK(tss.Edwards()) }
