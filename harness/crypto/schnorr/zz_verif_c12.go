//go:build verif

package schnorr

import (
	"crypto/elliptic"
	"math/big"

	"github.com/bnb-chain/tss-lib/v2/common"
	"github.com/bnb-chain/tss-lib/v2/crypto"
	"github.com/bnb-chain/tss-lib/v2/tss"
	v "github.com/bnb-chain/tss-lib/v2/zzverifapi"
)

// C12 for the two Schnorr proofs. The real prover runs on a symbolic witness and
// symbolic coins; the real verifier then runs under a different session, on a proof
// with one response replaced, or on a commitment/response pair shifted along the
// verified relation, and must reject. Fiat-Shamir challenges are outputs of the
// (uninterpreted) tagged hash; applications on different argument lists are
// independent coins (Summarise "challenge-independent").

func verifC12Sessions(mode int) (s1, s2 []byte) {
	switch mode {
	case 0: // two arbitrary different 4-byte sessions
		s1, s2 = v.NondetBytes("session", 4), v.NondetBytes("session2", 4)
		v.Assume("sessions-differ", !v.EqBytes(s1, s2))
	case 1: // ssid || i for prover indices 0 and 1 (index 0 appends nothing)
		ssid := []byte("ssid-bytes")
		s1 = common.AppendBigIntToBytesSlice(ssid, big.NewInt(0))
		s2 = common.AppendBigIntToBytesSlice(ssid, big.NewInt(1))
	default:
		s1 = v.NondetBytes("session", 4)
		s2 = s1
	}
	return
}

func verifC12ZK(ec elliptic.Curve, mode int) {
	v.Summarise("challenge-independent")
	q := ec.Params().N
	x := v.NondetNat("x")
	v.Assume("witness-in-Zq*", v.InRange(x, big.NewInt(1), q))
	X := crypto.ScalarBaseMult(ec, x)
	rd := v.ReaderWith("r", func(k int, a *big.Int) bool { return a.Sign() != 0 })
	s1, s2 := verifC12Sessions(mode)
	pf, err := NewZKProof(s1, x, X, rd)
	if err != nil {
		return
	}
	v.Assume("response-nonzero", pf.T.Sign() != 0)
	switch mode {
	case 0, 1:
		v.Assert("rejected-under-other-session", !pf.Verify(s2, X))
	case 2: // response replaced by any value not congruent to it
		T2 := v.NondetNat("T2")
		v.Assume("response-differs-mod-q", !v.CongMod(T2, pf.T, q))
		v.Assert("rejected-with-other-response", !(&ZKProof{Alpha: pf.Alpha, T: T2}).Verify(s1, X))
	case 3: // joint shift (alpha + d*G, t + d), d != 0 mod q
		d := v.NondetNat("d")
		v.Assume("shift-in-Zq*", v.InRange(d, big.NewInt(1), q))
		a2, err := pf.Alpha.Add(crypto.ScalarBaseMult(ec, d))
		if err != nil {
			return // the shifted commitment is the identity: not a point
		}
		T2 := new(big.Int).Add(pf.T, d)
		v.Assert("rejected-after-joint-shift", !(&ZKProof{Alpha: a2, T: T2}).Verify(s1, X))
	}
	v.Reach("end")
}

func VerifHarness_C12_schnorr_zk_session_secp()   { verifC12ZK(tss.S256(), 0) }
func VerifHarness_C12_schnorr_zk_session_ed()     { verifC12ZK(tss.Edwards(), 0) }
func VerifHarness_C12_schnorr_zk_proverindex_secp() { verifC12ZK(tss.S256(), 1) }
func VerifHarness_C12_schnorr_zk_response_secp()  { verifC12ZK(tss.S256(), 2) }
func VerifHarness_C12_schnorr_zk_response_ed()    { verifC12ZK(tss.Edwards(), 2) }
func VerifHarness_C12_schnorr_zk_shift_secp()     { verifC12ZK(tss.S256(), 3) }
func VerifHarness_C12_schnorr_zk_shift_ed()       { verifC12ZK(tss.Edwards(), 3) }

// ZKV: V = s*R + l*G, proof (alpha = a*R + b*G, t = a + c*s, u = b + c*l)
func verifC12ZKV(ec elliptic.Curve, mode int) {
	v.Summarise("challenge-independent")
	q := ec.Params().N
	s, l, k := v.NondetNat("s"), v.NondetNat("l"), v.NondetNat("k")
	v.Assume("witness-in-Zq*", v.All(v.InRange(s, big.NewInt(1), q), v.InRange(l, big.NewInt(1), q), v.InRange(k, big.NewInt(1), q)))
	R := crypto.ScalarBaseMult(ec, k)
	V, err := R.ScalarMult(s).Add(crypto.ScalarBaseMult(ec, l))
	if err != nil {
		return
	}
	// the degenerate statement V = identity (a point on edwards25519, none on secp256k1) is
	// outside the claim: every challenge verifies it; honest V = s*R + l*G hits it with probability 1/q
	sk := new(big.Int).Mul(s, k)
	v.Assume("statement-not-identity", !v.CongMod(sk.Add(sk, l), big.NewInt(0), q))
	// coins excluded: a = 0, b = 0, and the commitment a*R + b*G being the identity
	var a0 *big.Int
	rd := v.ReaderWith("r", func(i int, a *big.Int) bool {
		if i == 0 {
			a0 = a
			return a.Sign() != 0
		}
		ak := new(big.Int).Mul(a0, k)
		return a.Sign() != 0 && !v.CongMod(ak.Add(ak, a), big.NewInt(0), q)
	})
	s1, s2 := verifC12Sessions(mode)
	pf, err := NewZKVProof(s1, V, R, s, l, rd)
	if err != nil {
		return
	}
	switch mode {
	case 0, 1:
		v.Assert("rejected-under-other-session", !pf.Verify(s2, V, R))
	case 2:
		T2 := v.NondetNat("T2")
		v.Assume("response-differs-mod-q", !v.CongMod(T2, pf.T, q))
		v.Assert("rejected-with-other-response", !(&ZKVProof{Alpha: pf.Alpha, T: T2, U: pf.U}).Verify(s1, V, R))
	case 3: // (alpha + d*R, t + d)
		d := v.NondetNat("d")
		v.Assume("shift-in-Zq*", v.InRange(d, big.NewInt(1), q))
		a2, err := pf.Alpha.Add(R.ScalarMult(d))
		if err != nil {
			return
		}
		v.Assert("rejected-after-joint-shift", !(&ZKVProof{Alpha: a2, T: new(big.Int).Add(pf.T, d), U: pf.U}).Verify(s1, V, R))
	case 4: // (alpha + d*G, u + d)
		d := v.NondetNat("d")
		v.Assume("shift-in-Zq*", v.InRange(d, big.NewInt(1), q))
		a2, err := pf.Alpha.Add(crypto.ScalarBaseMult(ec, d))
		if err != nil {
			return
		}
		v.Assert("rejected-after-joint-shift", !(&ZKVProof{Alpha: a2, T: pf.T, U: new(big.Int).Add(pf.U, d)}).Verify(s1, V, R))
	}
	v.Reach("end")
}

func VerifHarness_C12_schnorr_zkv_session_secp()  { verifC12ZKV(tss.S256(), 0) }
func VerifHarness_C12_schnorr_zkv_proverindex_secp() { verifC12ZKV(tss.S256(), 1) }
func VerifHarness_C12_schnorr_zkv_response_secp() { verifC12ZKV(tss.S256(), 2) }
func VerifHarness_C12_schnorr_zkv_shiftR_secp()   { verifC12ZKV(tss.S256(), 3) }
func VerifHarness_C12_schnorr_zkv_shiftG_secp()   { verifC12ZKV(tss.S256(), 4) }
func VerifHarness_C12_schnorr_zkv_session_ed()    { verifC12ZKV(tss.Edwards(), 0) }
func VerifHarness_C12_schnorr_zkv_shiftG_ed()     { verifC12ZKV(tss.Edwards(), 4) }
