//go:build verif

package schnorr

import (
	"crypto/elliptic"
	"math/big"

	"github.com/bnb-chain/tss-lib/v2/common"
	"github.com/bnb-chain/tss-lib/v2/crypto"
	"github.com/bnb-chain/tss-lib/v2/tss"
	v "github.com/bnb-chain/tss-lib/v2/zzverifapi"
)

// an arbitrary point accepted by the library's own constructor (any curve point)
func verifHostilePoint(name string, ec elliptic.Curve) *crypto.ECPoint {
	// every point of secp256k1 (cofactor 1) other than the identity is k*G; on edwards25519
	// this is the prime-order subgroup (small-order components: the C17 harnesses)
	k := v.NondetNat(name + "_k")
	v.Assume("hostile-point-not-identity", !v.CongMod(k, big.NewInt(0), ec.Params().N))
	return crypto.ScalarBaseMult(ec, k)
}

func verifSession() []byte { return []byte("session") }

// C06 family 1: ZKProof.Verify returns (never panics) for every on-curve
// Alpha, X and every integer T >= 0.
func verifC06ZKVerify(ec elliptic.Curve) {
	q := ec.Params().N
	X := verifHostilePoint("X", ec)
	alpha := verifHostilePoint("alpha", ec)
	T := v.NondetNat("T")
	// coin excluded: the Fiat-Shamir challenge is ≡ 0 (mod q) (probability 2^-256)
	g := crypto.NewECPointNoCurveCheck(ec, ec.Params().Gx, ec.Params().Gy)
	c := common.RejectionSample(q, common.SHA512_256i_TAGGED(verifSession(), X.X(), X.Y(), g.X(), g.Y(), alpha.X(), alpha.Y()))
	v.Assume("challenge-nonzero", c.Sign() != 0)
	pf := &ZKProof{Alpha: alpha, T: T}
	_ = pf.Verify(verifSession(), X)
	v.Reach("end")
}

func VerifHarness_C06_schnorr_zk_verify_secp() { verifC06ZKVerify(tss.S256()) }
func VerifHarness_C06_schnorr_zk_verify_ed()   { verifC06ZKVerify(tss.Edwards()) }

func verifC06ZKVVerify(ec elliptic.Curve) {
	q := ec.Params().N
	V := verifHostilePoint("V", ec)
	R := verifHostilePoint("R", ec)
	alpha := verifHostilePoint("alpha", ec)
	T := v.NondetNat("T")
	U := v.NondetNat("U")
	g := crypto.NewECPointNoCurveCheck(ec, ec.Params().Gx, ec.Params().Gy)
	c := common.RejectionSample(q, common.SHA512_256i_TAGGED(verifSession(), V.X(), V.Y(), R.X(), R.Y(), g.X(), g.Y(), alpha.X(), alpha.Y()))
	v.Assume("challenge-nonzero", c.Sign() != 0)
	pf := &ZKVProof{Alpha: alpha, T: T, U: U}
	_ = pf.Verify(verifSession(), V, R)
	v.Reach("end")
}

func VerifHarness_C06_schnorr_zkv_verify_secp() { verifC06ZKVVerify(tss.S256()) }
func VerifHarness_C06_schnorr_zkv_verify_ed()   { verifC06ZKVVerify(tss.Edwards()) }

var _ = big.NewInt
