//go:build verif

package crypto

import (
	"math/big"

	"github.com/bnb-chain/tss-lib/v2/tss"
	v "github.com/bnb-chain/tss-lib/v2/zzverifapi"
)

// C17: on edwards25519 the cofactor-clearing map leaves prime-order points unchanged
func VerifHarness_C17_eightinveight_prime_order() {
	ec := tss.Edwards()
	q := ec.Params().N
	x := v.NondetNat("x")
	v.Assume("scalar-in-Zq*", v.InRange(x, big.NewInt(1), q))
	P := ScalarBaseMult(ec, x)
	Q := P.EightInvEight()
	v.Assert("prime-order-point-unchanged", Q.Equals(P))
	v.Reach("end")
}

// ... and removes the small-order component of ANY point of the curve: for every coordinate
// pair the constructor accepts (the model gives it an arbitrary group element of
// Z_q x Z_8), the result has order dividing q and differs from the input by a point of
// order dividing 8.
func VerifHarness_C17_eightinveight_clears_torsion() {
	ec := tss.Edwards()
	q := ec.Params().N
	x, y := v.NondetNat("x"), v.NondetNat("y")
	P, err := NewECPoint(ec, x, y)
	if err != nil {
		v.Assert("refused-only-off-curve", !ec.IsOnCurve(x, y))
		v.Reach("refused")
		return
	}
	Q := P.EightInvEight()
	qQ := Q.ScalarMult(q)
	v.Assert("result-has-prime-order", qQ.X().Sign() == 0 && qQ.Y().Cmp(big.NewInt(1)) == 0)
	eight := big.NewInt(8)
	v.Assert("differs-by-small-order-point", Q.ScalarMult(eight).Equals(P.ScalarMult(eight)))
	v.Reach("end")
}

// flattened coordinate lists: UnFlattenECPoints accepts exactly the lists whose pairs are
// all on the curve, returns the points in order on the stated curve, and FlattenECPoints
// gives the list back; odd lengths and nil are refused.
func verifC17Flatten(which int) {
	ec := tss.S256()
	if which == 1 {
		ec = tss.Edwards()
	}
	in := []*big.Int{v.NondetNat("x0"), v.NondetNat("y0"), v.NondetNat("x1"), v.NondetNat("y1")}
	pts, err := UnFlattenECPoints(ec, in)
	if err != nil {
		v.Assert("refused-only-if-a-pair-is-off-curve", !(ec.IsOnCurve(in[0], in[1]) && ec.IsOnCurve(in[2], in[3])))
		v.Reach("refused")
		return
	}
	v.Assert("two-points", len(pts) == 2)
	for i, p := range pts {
		v.Assert("accepted-point-is-on-curve", ec.IsOnCurve(p.X(), p.Y()) && p.IsOnCurve())
		v.Assert("point-keeps-its-coordinates-and-curve", v.EqInt(p.X(), in[2*i]) && v.EqInt(p.Y(), in[2*i+1]) && p.Curve() == ec)
	}
	back, err := FlattenECPoints(pts)
	v.Assert("flatten-succeeds", err == nil && len(back) == 4)
	if err == nil && len(back) == 4 {
		ok := true
		for i := range back {
			ok = ok && v.EqInt(back[i], in[i])
		}
		v.Assert("flatten-inverts-unflatten", ok)
	}
	_, err = UnFlattenECPoints(ec, in[:3])
	v.Assert("odd-length-refused", err != nil)
	_, err = UnFlattenECPoints(ec, nil)
	v.Assert("nil-refused", err != nil)
	v.Reach("end")
}

func VerifHarness_C17_flatten_roundtrip_secp() { verifC17Flatten(0) }
func VerifHarness_C17_flatten_roundtrip_ed()   { verifC17Flatten(1) }
