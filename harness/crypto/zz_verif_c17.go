//go:build verif

package crypto

import (
	"math/big"

	"github.com/bnb-chain/tss-lib/v2/tss"
	v "github.com/bnb-chain/tss-lib/v2/zzverifapi"
)

// C17: on edwards25519 the cofactor-clearing map leaves prime-order points unchanged
func VerifHarness_C17_eightinveight_prime_order() {
	ec := tss.Edwards()
	q := ec.Params().N
	x := v.NondetNat("x")
	v.Assume("scalar-in-Zq*", v.InRange(x, big.NewInt(1), q))
	P := ScalarBaseMult(ec, x)
	Q := P.EightInvEight()
	v.Assert("prime-order-point-unchanged", Q.Equals(P))
	v.Reach("end")
}
