//go:build verif

package crypto

import (
	"math/big"

	"github.com/bnb-chain/tss-lib/v2/tss"
	v "github.com/bnb-chain/tss-lib/v2/zzverifapi"
)

// C17: on edwards25519 the cofactor-clearing map leaves prime-order points unchanged
func VerifHarness_C17_eightinveight_prime_order() {
	ec := tss.Edwards()
	q := ec.Params().N
	x := v.NondetNat("x")
	v.Assume("scalar-in-Zq*", v.InRange(x, big.NewInt(1), q))
	P := ScalarBaseMult(ec, x)
	Q := P.EightInvEight()
	v.Assert("prime-order-point-unchanged", Q.Equals(P))
	v.Reach("end")
}

// ... and removes the small-order component of ANY point of the curve: for every coordinate
// pair the constructor accepts (the model gives it an arbitrary group element of
// Z_q x Z_8), the result has order dividing q and differs from the input by a point of
// order dividing 8.
func VerifHarness_C17_eightinveight_clears_torsion() {
	ec := tss.Edwards()
	q := ec.Params().N
	x, y := v.NondetNat("x"), v.NondetNat("y")
	P, err := NewECPoint(ec, x, y)
	if err != nil {
		v.Assert("refused-only-off-curve", !ec.IsOnCurve(x, y))
		v.Reach("refused")
		return
	}
	Q := P.EightInvEight()
	qQ := Q.ScalarMult(q)
	v.Assert("result-has-prime-order", qQ.X().Sign() == 0 && qQ.Y().Cmp(big.NewInt(1)) == 0)
	eight := big.NewInt(8)
	v.Assert("differs-by-small-order-point", Q.ScalarMult(eight).Equals(P.ScalarMult(eight)))
	v.Reach("end")
}

// flattened coordinate lists: UnFlattenECPoints accepts exactly the lists whose pairs are
// all on the curve, returns the points in order on the stated curve, and FlattenECPoints
// gives the list back; odd lengths and nil are refused.
func verifC17Flatten(which int) {
	ec := tss.S256()
	if which == 1 {
		ec = tss.Edwards()
	}
	in := []*big.Int{v.NondetNat("x0"), v.NondetNat("y0"), v.NondetNat("x1"), v.NondetNat("y1")}
	pts, err := UnFlattenECPoints(ec, in)
	if err != nil {
		v.Assert("refused-only-if-a-pair-is-off-curve", !(ec.IsOnCurve(in[0], in[1]) && ec.IsOnCurve(in[2], in[3])))
		v.Reach("refused")
		return
	}
	v.Assert("two-points", len(pts) == 2)
	for i, p := range pts {
		v.Assert("accepted-point-is-on-curve", ec.IsOnCurve(p.X(), p.Y()) && p.IsOnCurve())
		v.Assert("point-keeps-its-coordinates-and-curve", v.EqInt(p.X(), in[2*i]) && v.EqInt(p.Y(), in[2*i+1]) && p.Curve() == ec)
	}
	back, err := FlattenECPoints(pts)
	v.Assert("flatten-succeeds", err == nil && len(back) == 4)
	if err == nil && len(back) == 4 {
		ok := true
		for i := range back {
			ok = ok && v.EqInt(back[i], in[i])
		}
		v.Assert("flatten-inverts-unflatten", ok)
	}
	_, err = UnFlattenECPoints(ec, in[:3])
	v.Assert("odd-length-refused", err != nil)
	_, err = UnFlattenECPoints(ec, nil)
	v.Assert("nil-refused", err != nil)
	v.Reach("end")
}

func VerifHarness_C17_flatten_roundtrip_secp() { verifC17Flatten(0) }
func VerifHarness_C17_flatten_roundtrip_ed()   { verifC17Flatten(1) }

// the same with the three concrete points of order 2 and 4 added to an arbitrary prime-order
// point x*G: cofactor clearing must return x*G itself. (Unlike the harness above, whose
// input is an arbitrary accepted coordinate pair, a counterexample here replays natively.)
func VerifHarness_C17_eightinveight_concrete_torsion() {
	ec := tss.Edwards()
	q := ec.Params().N
	P := ec.Params().P
	// a square root of -1 modulo p = 2^255 - 19
	sqrtm1 := new(big.Int).SetBytes([]byte{0x2b, 0x83, 0x24, 0x80, 0x4f, 0xc1, 0xdf, 0x0b, 0x2b, 0x4d, 0x00, 0x99, 0x3d, 0xfb, 0xd7, 0xa7, 0x2f, 0x43, 0x18, 0x06, 0xad, 0x2f, 0xe4, 0x78, 0xc4, 0xee, 0x1b, 0x27, 0x4a, 0x0e, 0xa0, 0xb0})
	tors := [][2]*big.Int{
		{big.NewInt(0), new(big.Int).Sub(P, big.NewInt(1))}, // order 2
		{sqrtm1, big.NewInt(0)},                              // order 4
		{new(big.Int).Sub(P, sqrtm1), big.NewInt(0)},         // order 4
	}
	t := tors[v.NondetInt("which", 0, 2)]
	T, err := NewECPoint(ec, t[0], t[1])
	v.Assert("small-order-point-is-on-the-curve", err == nil)
	if err != nil {
		return
	}
	x := v.NondetNat("x")
	v.Assume("scalar-in-Zq*", v.InRange(x, big.NewInt(1), q))
	G := ScalarBaseMult(ec, x)
	Pt, err := G.Add(T)
	v.Assert("sum-is-on-the-curve", err == nil)
	if err != nil {
		return
	}
	v.Assert("input-has-a-small-order-component", !Pt.Equals(G))
	v.Assert("cofactor-clearing-removes-it", Pt.EightInvEight().Equals(G))
	// and a bare small-order point is mapped to the identity (0,1)
	I := T.EightInvEight()
	v.Assert("small-order-point-maps-to-identity", I.X().Sign() == 0 && I.Y().Cmp(big.NewInt(1)) == 0)
	v.Reach("end")
}

// an off-curve pair at ANY position of the list is refused (the off-curve pair is concrete -
// the generator with y+1 - so that a counterexample replays natively; the other point is an
// arbitrary multiple of the generator)
func verifC17OffCurvePosition(which int) {
	ec := tss.S256()
	if which == 1 {
		ec = tss.Edwards()
	}
	q := ec.Params().N
	k := v.NondetNat("k")
	v.Assume("scalar-in-Zq*", v.InRange(k, big.NewInt(1), q))
	good := ScalarBaseMult(ec, k)
	badX, badY := ec.Params().Gx, new(big.Int).Add(ec.Params().Gy, big.NewInt(1))
	v.Assert("perturbed-generator-is-off-curve", !ec.IsOnCurve(badX, badY))
	n := v.NondetInt("points", 1, 3)
	pos := v.NondetInt("bad_position", 0, n-1)
	var in []*big.Int
	for i := 0; i < n; i++ {
		if i == pos {
			in = append(in, badX, badY)
		} else {
			in = append(in, good.X(), good.Y())
		}
	}
	pts, err := UnFlattenECPoints(ec, in)
	v.Assert("off-curve-pair-refused-at-every-position", err != nil && pts == nil)
	v.Reach("end")
}

func VerifHarness_C17_unflatten_offcurve_any_position_secp() { verifC17OffCurvePosition(0) }
func VerifHarness_C17_unflatten_offcurve_any_position_ed()   { verifC17OffCurvePosition(1) }

// C17 (point comparison is exact; relied upon by every share check, the resharing public-key
// check and Bob's proof with check — C05 / C13 / C15): ECPoint.Equals holds exactly when
// both coordinates coincide, for ANY two coordinate pairs (constructed without the curve
// check, so the model of the curve plays no role and a counterexample replays natively).
// Includes the pairs that differ in one coordinate only: P and -P share x on secp256k1 and
// share y on edwards25519.
func verifC17Equals(which int) {
	ec := tss.S256()
	if which == 1 {
		ec = tss.Edwards()
	}
	x1, y1 := v.NondetNat("x1"), v.NondetNat("y1")
	x2, y2 := v.NondetNat("x2"), v.NondetNat("y2")
	P := NewECPointNoCurveCheck(ec, x1, y1)
	Q := NewECPointNoCurveCheck(ec, x2, y2)
	same := v.All(v.EqInt(x1, x2), v.EqInt(y1, y2))
	v.Assert("equals-iff-both-coordinates-equal", v.Iff(P.Equals(Q), same))
	v.Assert("equals-is-symmetric", v.Iff(P.Equals(Q), Q.Equals(P)))
	v.Assert("equals-is-reflexive", P.Equals(P))
	v.Assert("nil-is-not-equal", !P.Equals(nil))
	v.Reach("end")
}

func VerifHarness_C17_equals_exact_secp() { verifC17Equals(0) }
func VerifHarness_C17_equals_exact_ed()   { verifC17Equals(1) }

// the same on real points: P = k*G for concrete k and its negation (x, p - y) resp. (p - x, y),
// against a symbolic pair
func VerifHarness_C17_equals_negated_point() {
	for which := 0; which < 2; which++ {
		ec := tss.S256()
		if which == 1 {
			ec = tss.Edwards()
		}
		p := ec.Params().P
		P := ScalarBaseMult(ec, big.NewInt(5))
		var N *ECPoint
		if which == 0 {
			N = NewECPointNoCurveCheck(ec, P.X(), new(big.Int).Sub(p, P.Y()))
		} else {
			N = NewECPointNoCurveCheck(ec, new(big.Int).Sub(p, P.X()), P.Y())
		}
		v.Assert("negation-is-on-curve", N.IsOnCurve())
		v.Assert("point-differs-from-its-negation", !P.Equals(N) && !N.Equals(P))
	}
	v.Reach("end")
}
