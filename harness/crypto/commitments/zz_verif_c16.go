//go:build verif

package commitments

import (
	"math/big"

	v "github.com/bnb-chain/tss-lib/v2/zzverifapi"
)

// C16 packing: ParseSecrets(Secrets(parts)) == parts for every layout of <= 3 parts of
// length 0..3 with arbitrary elements (any size and sign)
func VerifHarness_C16_packing_roundtrip() {
	np := v.NondetInt("parts", 1, 3)
	parts := make([][]*big.Int, 0, 3)
	b := NewBuilder()
	for i := 0; i < np; i++ {
		l := v.NondetInt(v.Name("len", i), 0, 3)
		part := make([]*big.Int, 0, 3)
		for k := 0; k < l; k++ {
			part = append(part, v.NondetBigInt(v.Name(v.Name("e", i), k)))
		}
		parts = append(parts, part)
		b.AddPart(part)
	}
	secrets, err := b.Secrets()
	v.Assert("secrets-succeeds-within-limits", err == nil)
	if err != nil {
		return
	}
	back, err := ParseSecrets(secrets)
	// a layout whose last part is empty is a recorded finding (it parses to one part fewer)
	lastEmpty := len(parts[np-1]) == 0
	if lastEmpty {
		v.Observe("roundtrip-with-trailing-empty-part", err == nil && len(back) == np)
	} else {
		v.Assert("parse-succeeds", err == nil)
		v.Assert("same-number-of-parts", len(back) == np)
	}
	if err != nil || len(back) != np {
		v.Reach("end")
		return
	}
	for i := 0; i < np; i++ {
		v.Assert("same-part-length", len(back[i]) == len(parts[i]))
		if len(back[i]) != len(parts[i]) {
			return
		}
		for k := range parts[i] {
			v.Assert("same-element", v.EqInt(back[i][k], parts[i][k]))
		}
	}
	v.Reach("end")
}

// Secrets refuses more than PartsCap parts
func VerifHarness_C16_packing_too_many_parts() {
	b := NewBuilder()
	for i := 0; i < PartsCap+1; i++ {
		b.AddPart([]*big.Int{v.NondetBigInt(v.Name("e", i))})
	}
	_, err := b.Secrets()
	v.Assert("too-many-parts-refused", err != nil)
	v.Reach("end")
}

// commitments: two openings of lengths <= 3 with equal C are the same sequence; DeCommit of the
// honest opening returns exactly the secrets
func VerifHarness_C16_commitment_binding() {
	v.Summarise("hash-injective") // H itself is collision resistant on its framed input (the framing is checked on the real code by the common/ harnesses)
	n1 := v.NondetInt("n1", 0, 3)
	n2 := v.NondetInt("n2", 0, 3)
	mk := func(name string, n int) []*big.Int {
		out := make([]*big.Int, 0, 3)
		for i := 0; i < n; i++ {
			out = append(out, v.NondetNat(v.Name(name, i)))
		}
		return out
	}
	s1, s2 := mk("s", n1), mk("t", n2)
	r1, r2 := v.NondetNat("r1"), v.NondetNat("r2")
	c1 := NewHashCommitmentWithRandomness(r1, s1...)
	c2 := NewHashCommitmentWithRandomness(r2, s2...)
	same := n1 == n2 && v.EqInt(r1, r2)
	if n1 == n2 {
		for i := range s1 {
			same = v.All(same, v.EqInt(s1[i], s2[i]))
		}
	}
	v.Assert("equal-commitments-have-equal-openings", v.Implies(v.EqInt(c1.C, c2.C), same))
	ok, got := c1.DeCommit()
	v.Assert("honest-opening-verifies", ok)
	if ok {
		v.Assert("decommit-returns-the-secrets", len(got) == n1)
	}
	// opening c1's commitment with the other sequence fails unless it is the same sequence
	forged := &HashCommitDecommit{C: c1.C, D: c2.D}
	v.Assert("different-opening-fails", v.Implies(forged.Verify(), same))
	v.Reach("end")
}
