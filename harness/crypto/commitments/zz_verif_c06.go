//go:build verif

package commitments

import (
	"math/big"

	v "github.com/bnb-chain/tss-lib/v2/zzverifapi"
)

// C06 family 1 / C16: ParseSecrets returns (value or error) for every integer
// sequence of length 0..5 with arbitrary elements of any size and sign.
func VerifHarness_C06_parsesecrets_any() {
	n := v.NondetInt("n", 0, 5)
	secrets := make([]*big.Int, 0, 5)
	for i := 0; i < n; i++ {
		secrets = append(secrets, v.NondetBigInt(v.Name("s", i)))
	}
	_, _ = ParseSecrets(secrets)
	v.Reach("end")
}

func VerifHarness_C06_decommit_any() {
	n := v.NondetInt("n", 0, 3)
	d := make([]*big.Int, 0, 3)
	for i := 0; i < n; i++ {
		d = append(d, v.NondetNat(v.Name("d", i)))
	}
	cmt := &HashCommitDecommit{C: v.NondetNat("C"), D: d}
	_, _ = cmt.DeCommit()
	v.Reach("end")
}
