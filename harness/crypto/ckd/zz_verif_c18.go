//go:build verif

package ckd

import (
	"crypto/ecdsa"
	"crypto/hmac"
	"crypto/sha256"
	"crypto/sha512"
	"math/big"

	"github.com/bnb-chain/tss-lib/v2/crypto"
	"github.com/bnb-chain/tss-lib/v2/tss"
	"github.com/btcsuite/btcutil/base58"
	v "github.com/bnb-chain/tss-lib/v2/zzverifapi"
	"golang.org/x/crypto/ripemd160"
)

// The reference below is written from the BIP32 text (public parent key -> public child
// key), not from the code under test:
//   I = HMAC-SHA512(Key = c_par, Data = serP(K_par) || ser32(i));  I_L, I_R = 32-byte halves
//   K_i = point(parse256(I_L)) + K_par;  c_i = I_R
//   refused: i >= 2^31, parse256(I_L) >= n, K_i at infinity
//   fingerprint = first 4 bytes of RIPEMD160(SHA256(serP(K_par)))
// HMAC-SHA512, SHA-256 and RIPEMD-160 are uninterpreted, so the comparison is on the bytes
// fed to them and on how their outputs are sliced.

func verifSerP(X, Y *big.Int) []byte {
	// ser256(x), left-padded with zero bytes, after the parity byte
	out := make([]byte, 33)
	out[0] = 2 + byte(Y.Bit(0))
	xb := X.Bytes()
	copy(out[33-len(xb):], xb)
	return out
}

func verifParent(name string) (*ExtendedKey, *big.Int) {
	ec := tss.S256()
	q := ec.Params().N
	d := v.NondetNat(name + "_dlog")
	v.Assume("parent-key-is-a-point", v.InRange(d, big.NewInt(1), q))
	K := crypto.ScalarBaseMult(ec, d)
	return &ExtendedKey{
		PublicKey:  ecdsa.PublicKey{Curve: ec, X: K.X(), Y: K.Y()},
		Depth:      v.NondetByte(name + "_depth"),
		ChildIndex: v.NondetUint32(name + "_childindex"),
		ChainCode:  v.NondetBytes(name+"_chaincode", 32),
		ParentFP:   v.NondetBytes(name+"_parentfp", 4),
		Version:    v.NondetBytes(name+"_version", 4),
	}, d
}

// reference derivation; ok=false when BIP32 refuses
func verifRefDerive(index uint32, pk *ExtendedKey) (il *big.Int, child *crypto.ECPoint, cc, fp []byte, ok bool) {
	ec := tss.S256()
	if index >= 1<<31 {
		return nil, nil, nil, nil, false
	}
	serP := verifSerP(pk.X, pk.Y)
	data := append(append([]byte{}, serP...), byte(index>>24), byte(index>>16), byte(index>>8), byte(index))
	mac := hmac.New(sha512.New, pk.ChainCode)
	mac.Write(data)
	I := mac.Sum(nil)
	il = new(big.Int).SetBytes(I[:32])
	if il.Cmp(ec.Params().N) >= 0 {
		return nil, nil, nil, nil, false
	}
	parent, _ := crypto.NewECPoint(ec, pk.X, pk.Y)
	if il.Sign() == 0 {
		return nil, nil, nil, nil, false // point(0) is the point at infinity: K_i = K_par is refused by the library
	}
	child, err := crypto.ScalarBaseMult(ec, il).Add(parent)
	if err != nil {
		return nil, nil, nil, nil, false
	}
	h1 := sha256.New()
	h1.Write(serP)
	h2 := ripemd160.New()
	h2.Write(h1.Sum(nil))
	return il, child, I[32:], h2.Sum(nil)[:4], true
}

func verifCheckChild(label string, got *ExtendedKey, gotIL *big.Int, index uint32, pk *ExtendedKey, il *big.Int, child *crypto.ECPoint, cc, fp []byte) {
	v.Assert(label+"-offset-is-IL", v.EqInt(gotIL, il))
	v.Assert(label+"-child-key-is-IL*G+parent", v.EqInt(got.X, child.X()) && v.EqInt(got.Y, child.Y()))
	v.Assert(label+"-chain-code-is-IR", len(got.ChainCode) == 32 && v.EqBytes(got.ChainCode, cc))
	v.Assert(label+"-depth-incremented", got.Depth == pk.Depth+1)
	v.Assert(label+"-child-index", got.ChildIndex == index)
	v.Assert(label+"-fingerprint-of-parent", len(got.ParentFP) == 4 && v.EqBytes(got.ParentFP, fp))
	v.Assert(label+"-version-kept", v.EqBytes(got.Version, pk.Version))
}

// DeriveChildKeyFromHierarchy over a path of `levels` symbolic indices: the returned offset is
// the sum of the I_L of every level mod q, the final key is parent + offset*G and equals
// level-by-level BIP32 derivation; a refusal at any level refuses the whole path.
// Bound: keys along the path have a full 32-byte x coordinate (the leading-zero cases of
// the serialisation are covered by the single-step harness).
func verifC18Hierarchy(levels int) {
	ec := tss.S256()
	q := ec.Params().N
	pk, d := verifParent("par")
	full := new(big.Int).Lsh(big.NewInt(1), 248)
	v.Assume("full-length-x", pk.X.Cmp(full) >= 0)
	v.Assume("depth-leaves-room", int(pk.Depth)+levels <= 255)
	path := make([]uint32, levels)
	for i := range path {
		path[i] = v.NondetUint32(v.Name("index", i))
	}
	// reference: level by level
	cur := pk
	sum := new(big.Int)
	refused := false
	for i := 0; i < levels && !refused; i++ {
		il, child, cc, fp, ok := verifRefDerive(path[i], cur)
		if !ok {
			refused = true
			break
		}
		v.Assume("full-length-x", child.X().Cmp(full) >= 0)
		sum.Add(sum, il)
		cur = &ExtendedKey{PublicKey: ecdsa.PublicKey{Curve: ec, X: child.X(), Y: child.Y()}, Depth: cur.Depth + 1,
			ChildIndex: path[i], ChainCode: cc, ParentFP: fp, Version: cur.Version}
	}
	off, got, err := DeriveChildKeyFromHierarchy(path, pk, q, ec)
	if refused {
		v.Assert("refused-when-a-level-is-refused", err != nil)
		v.Reach("refused")
		return
	}
	v.Assert("derives", err == nil)
	if err != nil {
		return
	}
	v.Assert("offset-is-sum-of-IL-mod-q", v.EqInt(off, sum.Mod(sum, q)))
	v.Assert("offset-reduced", off.Sign() >= 0 && off.Cmp(q) < 0)
	// child = parent + offset*G
	tot := new(big.Int).Add(d, off)
	want := crypto.ScalarBaseMult(ec, tot.Mod(tot, q))
	v.Assert("final-key-is-parent-plus-offset*G", v.EqInt(got.X, want.X()) && v.EqInt(got.Y, want.Y()))
	v.Assert("final-key-equals-level-by-level", v.EqInt(got.X, cur.X) && v.EqInt(got.Y, cur.Y) && v.EqBytes(got.ChainCode, cur.ChainCode) &&
		got.Depth == cur.Depth && got.ChildIndex == cur.ChildIndex && v.EqBytes(got.ParentFP, cur.ParentFP))
	v.Reach("end")
}

// the empty path: offset 0 and the parent key itself
func VerifHarness_C18_hierarchy_len0() {
	ec := tss.S256()
	pk, _ := verifParent("par")
	off, got, err := DeriveChildKeyFromHierarchy(nil, pk, ec.Params().N, ec)
	v.Assert("empty-path-derives", err == nil)
	if err != nil {
		return
	}
	v.Assert("empty-path-offset-zero", off.Sign() == 0)
	v.Assert("empty-path-returns-parent", got == pk)
	v.Reach("end")
}
// compositional form for paths of length 2 (and 3): DeriveChildKeyFromHierarchy is the fold of
// the single step DeriveChildKey (which the derive_* harnesses check against the BIP32
// reference): same final key, and the returned offset is the SUM of the steps' offsets mod q.
// Both sides make the same hash applications, so the solver needs no reasoning about them.
func verifC18Fold(levels int) {
	ec := tss.S256()
	q := ec.Params().N
	pk, _ := verifParent("par")
	full := new(big.Int).Lsh(big.NewInt(1), 248)
	v.Assume("full-length-x", pk.X.Cmp(full) >= 0)
	v.Assume("depth-leaves-room", int(pk.Depth)+levels <= 255)
	path := make([]uint32, levels)
	for i := range path {
		path[i] = v.NondetUint32(v.Name("index", i))
	}
	cur := pk
	sum := new(big.Int)
	for i := 0; i < levels; i++ {
		il, child, err := DeriveChildKey(path[i], cur, ec)
		if err != nil {
			_, _, herr := DeriveChildKeyFromHierarchy(path, pk, q, ec)
			v.Assert("refused-when-a-step-is-refused", herr != nil)
			v.Reach("refused")
			return
		}
		v.Assume("full-length-x", child.X.Cmp(full) >= 0)
		sum.Add(sum, il)
		cur = child
	}
	off, got, err := DeriveChildKeyFromHierarchy(path, pk, q, ec)
	v.Assert("derives-when-every-step-derives", err == nil)
	if err != nil {
		return
	}
	v.Assert("offset-is-sum-of-step-offsets-mod-q", v.EqInt(off, sum.Mod(sum, q)))
	v.Assert("final-key-is-the-last-step's-key", v.EqInt(got.X, cur.X) && v.EqInt(got.Y, cur.Y) && v.EqBytes(got.ChainCode, cur.ChainCode) &&
		got.Depth == cur.Depth && got.ChildIndex == cur.ChildIndex && v.EqBytes(got.ParentFP, cur.ParentFP))
	v.Reach("end")
}

func VerifHarness_C18_hierarchy_fold_len2() { verifC18Fold(2) }
func VerifHarness_C18_hierarchy_fold_len3() { verifC18Fold(3) }

func VerifHarness_C18_hierarchy_len1() { verifC18Hierarchy(1) }
func VerifHarness_C18_hierarchy_len2() { verifC18Hierarchy(2) }
func VerifHarness_C18_hierarchy_len3() { verifC18Hierarchy(3) }

// one derivation step, every parent key / chain code / depth / index
func verifC18Derive(xlen int) {
	ec := tss.S256()
	pk, _ := verifParent("par")
	full := new(big.Int).Lsh(big.NewInt(1), 248)
	switch xlen {
	case 0: // any number (1..32) of leading zero bytes
		v.Assume("x-has-leading-zero-bytes", pk.X.Cmp(full) < 0)
	case 31: // exactly one leading zero byte
		v.Assume("x-has-one-leading-zero-byte", v.LtInt(pk.X, full))
		v.Assume("x-has-one-leading-zero-byte", v.LeInt(new(big.Int).Lsh(big.NewInt(1), 240), pk.X))
	default:
		v.Assume("full-length-x", pk.X.Cmp(full) >= 0)
	}
	index := v.NondetUint32("index")
	gotIL, got, err := DeriveChildKey(index, pk, ec)
	il, child, cc, fp, ok := verifRefDerive(index, pk)
	if pk.Depth == 255 {
		v.Assert("refused-at-max-depth", err != nil)
		v.Reach("max-depth")
		return
	}
	if !ok {
		v.Assert("refused-when-bip32-refuses", err != nil)
		v.Reach("refused")
		return
	}
	v.Assert("derives-when-bip32-derives", err == nil)
	if err != nil {
		return
	}
	verifCheckChild("step", got, gotIL, index, pk, il, child, cc, fp)
	v.Reach("end")
}

// x coordinate of the parent with its full 32 bytes / with 1..32 leading zero bytes (the
// padding of ser256 in the HMAC input and the fingerprint)
func VerifHarness_C18_derive_child_key_fullx()  { verifC18Derive(32) }
func VerifHarness_C18_derive_child_key_x31()    { verifC18Derive(31) }
func VerifHarness_C18_derive_child_key_shortx() { verifC18Derive(0) }

// Extended key serialisation: payload layout per BIP32
//   version(4) || depth(1) || parent fingerprint(4) || child number(4, big-endian) || chain code(32) || serP(K)(33)
// followed by the first 4 bytes of SHA256(SHA256(payload)); base58 is an abstract bijection.
// NewExtendedKeyFromString(String(k)) returns k.
func verifC18String(shortX bool) {
	ec := tss.S256()
	k, _ := verifParent("k")
	full := new(big.Int).Lsh(big.NewInt(1), 248)
	if shortX {
		v.Assume("x-has-leading-zero-bytes", k.X.Cmp(full) < 0)
	} else {
		v.Assume("full-length-x", k.X.Cmp(full) >= 0)
	}
	s := k.String()
	raw := base58.Decode(s)
	v.Assert("serialised-length-82", len(raw) == 82)
	if len(raw) != 82 {
		return
	}
	var want []byte
	want = append(want, k.Version...)
	want = append(want, k.Depth)
	want = append(want, k.ParentFP...)
	want = append(want, byte(k.ChildIndex>>24), byte(k.ChildIndex>>16), byte(k.ChildIndex>>8), byte(k.ChildIndex))
	want = append(want, k.ChainCode...)
	want = append(want, verifSerP(k.X, k.Y)...)
	v.Assert("payload-layout", v.EqBytes(raw[:78], want))
	h1 := sha256.Sum256(want)
	h2 := sha256.Sum256(h1[:])
	v.Assert("checksum-is-double-sha256", v.EqBytes(raw[78:], h2[:4]))
	k2, err := NewExtendedKeyFromString(s, ec)
	v.Assert("parses-back", err == nil)
	if err != nil {
		return
	}
	v.Assert("round-trip", v.EqInt(k2.X, k.X) && v.EqInt(k2.Y, k.Y) && k2.Depth == k.Depth && k2.ChildIndex == k.ChildIndex &&
		v.EqBytes(k2.ChainCode, k.ChainCode) && v.EqBytes(k2.ParentFP, k.ParentFP) && v.EqBytes(k2.Version, k.Version))
	v.Reach("end")
}

func VerifHarness_C18_string_roundtrip_fullx()  { verifC18String(false) }
func VerifHarness_C18_string_roundtrip_shortx() { verifC18String(true) }

// a corrupted checksum or a wrong length is refused
func VerifHarness_C18_string_rejects_bad_checksum() {
	ec := tss.S256()
	k, _ := verifParent("k")
	v.Assume("full-length-x", k.X.Cmp(new(big.Int).Lsh(big.NewInt(1), 248)) >= 0)
	raw := base58.Decode(k.String())
	if len(raw) != 82 {
		return
	}
	// (a changed payload byte is caught only with probability 1 - 2^-32 by the 4-byte checksum: not claimed)
	i := v.NondetInt("byte", 78, 81)
	bad := v.NondetByte("bad")
	v.Assume("byte-changed", bad != raw[i])
	raw[i] = bad
	_, err := NewExtendedKeyFromString(base58.Encode(raw), ec)
	v.Assert("bad-checksum-refused", err != nil)
	_, err = NewExtendedKeyFromString(base58.Encode(raw[:81]), ec)
	v.Assert("short-input-refused", err != nil)
	v.Reach("end")
}

// a concrete parent key whose x coordinate has leading zero bytes (the first k*G with a
// 31-byte x, then the first with at most 30 bytes), chain code / depth / index symbolic:
// unlike the symbolic-key harnesses above, a counterexample found here replays natively,
// because it does not depend on an uninterpreted coordinate value
func verifC18ConcreteShortX(maxLen int) {
	ec := tss.S256()
	var K *crypto.ECPoint
	for k := int64(1); k < 20000; k++ {
		P := crypto.ScalarBaseMult(ec, big.NewInt(k))
		if len(P.X().Bytes()) <= maxLen {
			K = P
			break
		}
	}
	if K == nil {
		return
	}
	pk := &ExtendedKey{
		PublicKey:  ecdsa.PublicKey{Curve: ec, X: K.X(), Y: K.Y()},
		Depth:      v.NondetByte("par_depth"),
		ChildIndex: v.NondetUint32("par_childindex"),
		ChainCode:  v.NondetBytes("par_chaincode", 32),
		ParentFP:   v.NondetBytes("par_parentfp", 4),
		Version:    v.NondetBytes("par_version", 4),
	}
	index := v.NondetUint32("index")
	gotIL, got, err := DeriveChildKey(index, pk, ec)
	il, child, cc, fp, ok := verifRefDerive(index, pk)
	if pk.Depth == 255 {
		v.Assert("refused-at-max-depth", err != nil)
		v.Reach("max-depth")
		return
	}
	if !ok {
		v.Assert("refused-when-bip32-refuses", err != nil)
		v.Reach("refused")
		return
	}
	v.Assert("derives-when-bip32-derives", err == nil)
	if err != nil {
		return
	}
	verifCheckChild("step", got, gotIL, index, pk, il, child, cc, fp)
	v.Reach("end")
}

func VerifHarness_C18_derive_concrete_x31() { verifC18ConcreteShortX(31) }
