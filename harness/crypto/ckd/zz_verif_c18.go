//go:build verif

package ckd

import (
	"crypto/ecdsa"
	"crypto/hmac"
	"crypto/sha256"
	"crypto/sha512"
	"math/big"

	"github.com/bnb-chain/tss-lib/v2/crypto"
	"github.com/bnb-chain/tss-lib/v2/tss"
	v "github.com/bnb-chain/tss-lib/v2/zzverifapi"
	"golang.org/x/crypto/ripemd160"
)

// The reference below is written from the BIP32 text (public parent key -> public child
// key), not from the code under test:
//   I = HMAC-SHA512(Key = c_par, Data = serP(K_par) || ser32(i));  I_L, I_R = 32-byte halves
//   K_i = point(parse256(I_L)) + K_par;  c_i = I_R
//   refused: i >= 2^31, parse256(I_L) >= n, K_i at infinity
//   fingerprint = first 4 bytes of RIPEMD160(SHA256(serP(K_par)))
// HMAC-SHA512, SHA-256 and RIPEMD-160 are uninterpreted, so the comparison is on the bytes
// fed to them and on how their outputs are sliced.

func verifSerP(X, Y *big.Int) []byte {
	out := make([]byte, 33)
	out[0] = 2 + byte(Y.Bit(0))
	X.FillBytes(out[1:])
	return out
}

func verifParent(name string) (*ExtendedKey, *big.Int) {
	ec := tss.S256()
	q := ec.Params().N
	d := v.NondetNat(name + "_dlog")
	v.Assume("parent-key-is-a-point", v.InRange(d, big.NewInt(1), q))
	K := crypto.ScalarBaseMult(ec, d)
	return &ExtendedKey{
		PublicKey:  ecdsa.PublicKey{Curve: ec, X: K.X(), Y: K.Y()},
		Depth:      v.NondetByte(name + "_depth"),
		ChildIndex: v.NondetUint32(name + "_childindex"),
		ChainCode:  v.NondetBytes(name+"_chaincode", 32),
		ParentFP:   v.NondetBytes(name+"_parentfp", 4),
		Version:    v.NondetBytes(name+"_version", 4),
	}, d
}

// reference derivation; ok=false when BIP32 refuses
func verifRefDerive(index uint32, pk *ExtendedKey) (il *big.Int, child *crypto.ECPoint, cc, fp []byte, ok bool) {
	ec := tss.S256()
	if index >= 1<<31 {
		return nil, nil, nil, nil, false
	}
	serP := verifSerP(pk.X, pk.Y)
	data := append(append([]byte{}, serP...), byte(index>>24), byte(index>>16), byte(index>>8), byte(index))
	mac := hmac.New(sha512.New, pk.ChainCode)
	mac.Write(data)
	I := mac.Sum(nil)
	il = new(big.Int).SetBytes(I[:32])
	if il.Cmp(ec.Params().N) >= 0 {
		return nil, nil, nil, nil, false
	}
	parent, _ := crypto.NewECPoint(ec, pk.X, pk.Y)
	if il.Sign() == 0 {
		return nil, nil, nil, nil, false // point(0) is the point at infinity: K_i = K_par is refused by the library
	}
	child, err := crypto.ScalarBaseMult(ec, il).Add(parent)
	if err != nil {
		return nil, nil, nil, nil, false
	}
	h1 := sha256.New()
	h1.Write(serP)
	h2 := ripemd160.New()
	h2.Write(h1.Sum(nil))
	return il, child, I[32:], h2.Sum(nil)[:4], true
}

func verifCheckChild(label string, got *ExtendedKey, gotIL *big.Int, index uint32, pk *ExtendedKey, il *big.Int, child *crypto.ECPoint, cc, fp []byte) {
	v.Assert(label+"-offset-is-IL", v.EqInt(gotIL, il))
	v.Assert(label+"-child-key-is-IL*G+parent", v.EqInt(got.X, child.X()) && v.EqInt(got.Y, child.Y()))
	v.Assert(label+"-chain-code-is-IR", len(got.ChainCode) == 32 && v.EqBytes(got.ChainCode, cc))
	v.Assert(label+"-depth-incremented", got.Depth == pk.Depth+1)
	v.Assert(label+"-child-index", got.ChildIndex == index)
	v.Assert(label+"-fingerprint-of-parent", len(got.ParentFP) == 4 && v.EqBytes(got.ParentFP, fp))
	v.Assert(label+"-version-kept", v.EqBytes(got.Version, pk.Version))
}

// one derivation step, every parent key / chain code / depth / index
func VerifHarness_C18_derive_child_key() {
	ec := tss.S256()
	pk, _ := verifParent("par")
	index := v.NondetUint32("index")
	gotIL, got, err := DeriveChildKey(index, pk, ec)
	il, child, cc, fp, ok := verifRefDerive(index, pk)
	if pk.Depth == 255 {
		v.Assert("refused-at-max-depth", err != nil)
		v.Reach("max-depth")
		return
	}
	if !ok {
		v.Assert("refused-when-bip32-refuses", err != nil)
		v.Reach("refused")
		return
	}
	v.Assert("derives-when-bip32-derives", err == nil)
	if err != nil {
		return
	}
	verifCheckChild("step", got, gotIL, index, pk, il, child, cc, fp)
	v.Reach("end")
}
