//go:build verif

package modproof

import (
	"math/big"

	v "github.com/bnb-chain/tss-lib/v2/zzverifapi"
)

// C06 family 1: ProofMod.Verify returns for arbitrary proof fields and modulus.
func VerifHarness_C06_mod_verify() {
	pf := &ProofMod{W: v.NondetNat("W"), A: v.NondetNat("A"), B: v.NondetNat("B")}
	for i := 0; i < Iterations; i++ {
		pf.X[i] = v.NondetNat(v.Name("X", i))
		pf.Z[i] = v.NondetNat(v.Name("Z", i))
	}
	N := v.NondetNat("N")
	_ = pf.Verify([]byte("session"), N)
	v.Reach("end")
}

func VerifHarness_C06_mod_frombytes() {
	n := v.NondetInt("parts", 160, 165)
	out := make([][]byte, 0, 165)
	for i := 0; i < n; i++ {
		out = append(out, v.NondetBytes(v.Name("p", i), v.NondetInt(v.Name("plen", i), 0, 1)))
	}
	_, _ = NewProofFromBytes(out)
	v.Reach("end")
}

var _ = big.NewInt
