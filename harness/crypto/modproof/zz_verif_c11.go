//go:build verif

package modproof

import (
	"math/big"

	v "github.com/bnb-chain/tss-lib/v2/zzverifapi"
)

func verifAnyProof() *ProofMod {
	pf := &ProofMod{W: v.NondetNat("W"), A: v.NondetNat("A"), B: v.NondetNat("B")}
	for i := 0; i < Iterations; i++ {
		pf.X[i] = v.NondetNat(v.Name("X", i))
		pf.Z[i] = v.NondetNat(v.Name("Z", i))
	}
	return pf
}

// C11: for EVERY transcript the Paillier-Blum verifier rejects an even modulus
func VerifHarness_C11_mod_rejects_even_modulus() {
	pf := verifAnyProof()
	N := v.NondetNat("N")
	v.Assume("N-even", v.CongMod(N, big.NewInt(0), big.NewInt(2)))
	v.Assert("rejected", !pf.Verify([]byte("session"), N))
	v.Reach("end")
}

// ... and a W outside (0, N)
func VerifHarness_C11_mod_rejects_w_out_of_range() {
	pf := verifAnyProof()
	N := v.NondetNat("N")
	v.Assume("N-odd", v.CongMod(N, big.NewInt(1), big.NewInt(2)))
	v.Assume("W-out-of-range", v.Any(pf.W.Sign() == 0, v.LeInt(N, pf.W)))
	v.Assert("rejected", !pf.Verify([]byte("session"), N))
	v.Reach("end")
}
