//go:build verif

package dlnproof

import (
	"math/big"

	v "github.com/bnb-chain/tss-lib/v2/zzverifapi"
)

// C06 family 1: dlnproof.Verify returns for arbitrary proof elements and statement.
func VerifHarness_C06_dln_verify() {
	pf := &Proof{}
	for i := 0; i < Iterations; i++ {
		pf.Alpha[i] = v.NondetNat(v.Name("alpha", i))
		pf.T[i] = v.NondetNat(v.Name("t", i))
	}
	_ = pf.Verify(v.NondetNat("h1"), v.NondetNat("h2"), v.NondetNat("N"))
	v.Reach("end")
}

var _ = big.NewInt
