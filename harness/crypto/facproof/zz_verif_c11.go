//go:build verif

package facproof

import (
	"math/big"

	"github.com/bnb-chain/tss-lib/v2/tss"
	v "github.com/bnb-chain/tss-lib/v2/zzverifapi"
)

// C11: for EVERY transcript the no-small-factor verifier rejects z1 or z2 outside [0, q^3*sqrt(N0))
func verifC11Fac(which int) {
	ec := tss.EC()
	q := ec.Params().N
	q3 := new(big.Int).Mul(q, new(big.Int).Mul(q, q))
	f := verifNats("P", "Q", "A", "B", "T", "Sigma", "Z1", "Z2", "W1", "W2", "V")
	pf := &ProofFac{P: f[0], Q: f[1], A: f[2], B: f[3], T: f[4], Sigma: f[5], Z1: f[6], Z2: f[7], W1: f[8], W2: f[9], V: f[10]}
	a := verifNats("N0", "NCap", "s", "t")
	v.Assume("own-NCap>=2", v.LeInt(big.NewInt(2), a[1]))
	v.Assume("N0-positive", a[0].Sign() > 0)
	bound := new(big.Int).Mul(q3, new(big.Int).Sqrt(a[0]))
	if which == 0 {
		v.Assume("z1-out-of-range", v.LeInt(bound, pf.Z1))
	} else {
		v.Assume("z2-out-of-range", v.LeInt(bound, pf.Z2))
	}
	v.Assert("rejected", !pf.Verify([]byte("session"), ec, a[0], a[1], a[2], a[3]))
	v.Reach("end")
}

func VerifHarness_C11_fac_rejects_z1_out_of_range() { verifC11Fac(0) }
func VerifHarness_C11_fac_rejects_z2_out_of_range() { verifC11Fac(1) }
