//go:build verif

package facproof

import (
	"math/big"

	"github.com/bnb-chain/tss-lib/v2/tss"
	v "github.com/bnb-chain/tss-lib/v2/zzverifapi"
)

func verifNats(names ...string) []*big.Int {
	out := make([]*big.Int, len(names))
	for i, n := range names {
		out[i] = v.NondetNat(n)
	}
	return out
}

// C06 family 1: ProofFac.Verify returns for arbitrary proof fields and statement.
// NCap, s, t are the verifier's own ring-Pedersen parameters: NCap >= 2 assumed.
func VerifHarness_C06_fac_verify() {
	f := verifNats("P", "Q", "A", "B", "T", "Sigma", "Z1", "Z2", "W1", "W2", "V")
	pf := &ProofFac{P: f[0], Q: f[1], A: f[2], B: f[3], T: f[4], Sigma: f[5], Z1: f[6], Z2: f[7], W1: f[8], W2: f[9], V: f[10]}
	a := verifNats("N0", "NCap", "s", "t")
	v.Assume("own-NCap>=2", v.LeInt(big.NewInt(2), a[1]))
	_ = pf.Verify([]byte("session"), tss.EC(), a[0], a[1], a[2], a[3])
	v.Reach("end")
}

func VerifHarness_C06_fac_frombytes() {
	n := v.NondetInt("parts", 0, 12)
	out := make([][]byte, 0, 12)
	for i := 0; i < n; i++ {
		out = append(out, v.NondetBytes(v.Name("p", i), v.NondetInt(v.Name("plen", i), 0, 1)))
	}
	_, _ = NewProofFromBytes(out)
	v.Reach("end")
}
