//go:build verif

package mta

import (
	"math/big"

	"github.com/bnb-chain/tss-lib/v2/crypto/paillier"
	"github.com/bnb-chain/tss-lib/v2/tss"
	v "github.com/bnb-chain/tss-lib/v2/zzverifapi"
)

// C11 deterministic rejections on the real verifiers, for EVERY transcript (all other
// fields arbitrary): Alice's range proof with s1 > q^3, Bob's proofs with s1 > q^3 or t1 > q^7.
func VerifHarness_C11_alice_rejects_s1_above_q3() {
	ec := tss.S256()
	q := ec.Params().N
	q3 := new(big.Int).Mul(q, new(big.Int).Mul(q, q))
	f := verifNats("Z", "U", "W", "S", "S1", "S2")
	v.Assume("s1-above-q^3", v.LtInt(q3, f[4]))
	pf := &RangeProofAlice{Z: f[0], U: f[1], W: f[2], S: f[3], S1: f[4], S2: f[5]}
	pk := &paillier.PublicKey{N: v.NondetNat("N")}
	a := verifNats("NTilde", "h1", "h2", "c")
	v.Assert("rejected", !pf.Verify(ec, pk, a[0], a[1], a[2], a[3]))
	v.Reach("end")
}

func verifC11Bob(which int) {
	ec := tss.S256()
	q := ec.Params().N
	q3 := new(big.Int).Mul(q, new(big.Int).Mul(q, q))
	q7 := new(big.Int).Mul(q3, new(big.Int).Mul(q3, q))
	pf := verifProofBob()
	switch which {
	case 0:
		v.Assume("s1-above-q^3", v.LtInt(q3, pf.S1))
	case 1:
		v.Assume("t1-above-q^7", v.LtInt(q7, pf.T1))
	case 2:
		v.Assume("s1-below-q", v.LtInt(pf.S1, q))
	}
	pk := &paillier.PublicKey{N: v.NondetNat("N")}
	a := verifNats("NTilde", "h1", "h2", "c1", "c2")
	v.Assert("rejected", !pf.Verify([]byte("session"), ec, pk, a[0], a[1], a[2], a[3], a[4]))
	v.Reach("end")
}

func VerifHarness_C11_bob_rejects_s1_above_q3() { verifC11Bob(0) }
func VerifHarness_C11_bob_rejects_t1_above_q7() { verifC11Bob(1) }
func VerifHarness_C11_bob_rejects_s1_below_q()  { verifC11Bob(2) }
