//go:build verif

package mta

import (
	"math/big"

	"github.com/bnb-chain/tss-lib/v2/crypto"
	"github.com/bnb-chain/tss-lib/v2/crypto/paillier"
	"github.com/bnb-chain/tss-lib/v2/tss"
	v "github.com/bnb-chain/tss-lib/v2/zzverifapi"
)

type verifParams struct {
	sk             *paillier.PrivateKey
	NTilde, h1, h2 *big.Int
}

// an arbitrary valid parameter set: 2048-bit Paillier modulus, ring-Pedersen parameters
// (all symbolic; Paillier itself is at its ideal specification, see C14)
func verifParamSet(name string) *verifParams {
	two := big.NewInt(2)
	lo, hi := new(big.Int).Exp(two, big.NewInt(2047), nil), new(big.Int).Exp(two, big.NewInt(2048), nil)
	N := v.NondetNat(name + "_N")
	v.Assume("N-has-2048-bits", v.InRange(N, lo, hi))
	nt := v.NondetNat(name + "_NTilde")
	v.Assume("NTilde-has-2048-bits", v.InRange(nt, lo, hi))
	h1, h2 := v.NondetNat(name+"_h1"), v.NondetNat(name+"_h2")
	v.Assume("h1-h2-in-range", v.All(v.InRange(h1, two, nt), v.InRange(h2, two, nt)))
	sk := &paillier.PrivateKey{PublicKey: paillier.PublicKey{N: N}}
	return &verifParams{sk: sk, NTilde: nt, h1: h1, h2: h2}
}

// C13: alpha + beta = a*b (mod q) for all a, b in [0,q), any two parameter sets
func verifC13(withCheck, fixture bool) {
	v.Summarise("ideal-paillier")
	ec := tss.S256()
	q := ec.Params().N
	var A, B *verifParams
	if fixture {
		// the keys of the repository's test fixtures 0 and 1 (concrete, valid): replayable
		A, B = verifFixtureSet(0), verifFixtureSet(1)
	} else {
		A, B = verifParamSet("A"), verifParamSet("B")
	}
	a, b := v.NondetNat("a"), v.NondetNat("b")
	v.Assume("secrets-in-Zq", v.All(v.InRange(a, big.NewInt(0), q), v.InRange(b, big.NewInt(0), q)))
	session := []byte("session")
	cA, pfA, err := AliceInit(ec, &A.sk.PublicKey, a, B.NTilde, B.h1, B.h2, v.Reader("alice"))
	v.Assert("alice-init-succeeds", err == nil)
	if err != nil {
		return
	}
	var alpha, beta *big.Int
	if withCheck {
		v.Assume("b-nonzero", b.Sign() != 0) // B = b*G must be a point
		Bpt := crypto.ScalarBaseMult(ec, b)
		bt, cB, _, pfB, err := BobMidWC(session, ec, &A.sk.PublicKey, pfA, b, cA, A.NTilde, A.h1, A.h2, B.NTilde, B.h1, B.h2, Bpt, v.Reader("bob"))
		v.Assert("bob-mid-succeeds", err == nil)
		if err != nil {
			return
		}
		beta = bt
		alpha, err = AliceEndWC(session, ec, &A.sk.PublicKey, pfB, Bpt, cA, cB, A.NTilde, A.h1, A.h2, A.sk)
		v.Assert("alice-end-succeeds", err == nil)
		if err != nil {
			return
		}
		// a different public point is rejected
		other := v.NondetNat("other")
		v.Assume("other-point", v.All(v.InRange(other, big.NewInt(1), q), !v.CongMod(other, b, q)))
		_, err2 := AliceEndWC(session, ec, &A.sk.PublicKey, pfB, crypto.ScalarBaseMult(ec, other), cA, cB, A.NTilde, A.h1, A.h2, A.sk)
		v.Assert("wrong-public-point-rejected", err2 != nil)
	} else {
		bt, cB, _, pfB, err := BobMid(session, ec, &A.sk.PublicKey, pfA, b, cA, A.NTilde, A.h1, A.h2, B.NTilde, B.h1, B.h2, v.Reader("bob"))
		v.Assert("bob-mid-succeeds", err == nil)
		if err != nil {
			return
		}
		beta = bt
		alpha, err = AliceEnd(session, ec, &A.sk.PublicKey, pfB, A.h1, A.h2, cA, cB, A.NTilde, A.sk)
		v.Assert("alice-end-succeeds", err == nil)
		if err != nil {
			return
		}
		// a ciphertext altered in transit is rejected by the receiving side
		cB2 := v.NondetNat("cB_altered")
		v.Assume("altered", !v.EqInt(cB2, cB))
		_, err2 := AliceEnd(session, ec, &A.sk.PublicKey, pfB, A.h1, A.h2, cA, cB2, A.NTilde, A.sk)
		v.Assert("altered-cB-rejected", err2 != nil)
	}
	sum := new(big.Int).Add(alpha, beta)
	prod := new(big.Int).Mul(a, b)
	v.Assert("alpha+beta=a*b mod q", v.CongMod(sum, prod, q))
	v.Assert("alpha-canonical", v.InRange(alpha, big.NewInt(0), q))
	v.Assert("beta-canonical", v.InRange(beta, big.NewInt(0), q))
	v.Reach("end")
}

func VerifHarness_C13_mta_plain()      { verifC13(false, false) }
func VerifHarness_C13_mta_with_check() { verifC13(true, false) }

// the same exchanges with concrete valid keys (secrets and coins still symbolic)
func VerifHarness_C13_mta_plain_fixture_keys()      { verifC13(false, true) }
func VerifHarness_C13_mta_with_check_fixture_keys() { verifC13(true, true) }
