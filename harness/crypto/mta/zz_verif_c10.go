//go:build verif

package mta

import (
	"crypto/elliptic"
	"math/big"

	"github.com/bnb-chain/tss-lib/v2/crypto/paillier"
	"github.com/bnb-chain/tss-lib/v2/tss"
	v "github.com/bnb-chain/tss-lib/v2/zzverifapi"
)

// C10, the decidable half of completeness for Alice's range proof: the responses of the REAL
// prover, for every witness m in [0,q), every 2048-bit Paillier / ring-Pedersen modulus and
// every coin outside two negligible windows, pass every interval guard of the real verifier
// (q <= s1 <= q^3, s2 >= q, s1 != s2) on both curves. The group-equation half (identities
// between powers with symbolic exponents modulo N^2 and NTilde) is outside: pow is
// uninterpreted. Both curves matter: q^3 sits just below a power of two on secp256k1 and in
// the middle of a binade on edwards25519.
func verifC10AliceGuards(ec elliptic.Curve) {
	q := ec.Params().N
	q2 := new(big.Int).Mul(q, q)
	q3 := new(big.Int).Mul(q, q2)
	two := big.NewInt(2)
	lo, hi := new(big.Int).Exp(two, big.NewInt(2047), nil), new(big.Int).Exp(two, big.NewInt(2048), nil)
	N, NTilde := v.NondetNat("N"), v.NondetNat("NTilde")
	v.Assume("moduli-have-2048-bits", v.All(v.InRange(N, lo, hi), v.InRange(NTilde, lo, hi)))
	h1, h2 := v.NondetNat("h1"), v.NondetNat("h2")
	v.Assume("h1-h2-in-range", v.All(v.InRange(h1, two, NTilde), v.InRange(h2, two, NTilde)))
	m, r, c := v.NondetNat("m"), v.NondetNat("r"), v.NondetNat("c")
	v.Assume("witness-below-q", v.LtInt(m, q))
	v.Assume("randomness-and-ciphertext-in-range", v.All(v.InRange(r, big.NewInt(1), N), v.InRange(c, big.NewInt(1), new(big.Int).Mul(N, N))))
	// coins excluded (probability < 2^-250 each): a draw below q, a draw in the top window
	// [q^3 - q^2, q^3) of the mask's range (then e*m + alpha may exceed q^3)
	top := new(big.Int).Sub(q3, q2)
	rd := v.ReaderWith("coin", func(k int, x *big.Int) bool {
		return x.Cmp(q) >= 0 && (x.Cmp(top) < 0 || x.Cmp(q3) >= 0)
	})
	pk := &paillier.PublicKey{N: N}
	pf, err := ProveRangeAlice(ec, pk, c, NTilde, h1, h2, m, r, rd)
	v.Assert("prover-succeeds", err == nil && pf != nil)
	if err != nil || pf == nil {
		return
	}
	v.Assert("s1-at-least-q", v.LeInt(q, pf.S1))
	v.Assert("s1-at-most-q^3", v.LeInt(pf.S1, q3))
	v.Assert("s2-at-least-q", v.LeInt(q, pf.S2))
	v.Reach("end")
}

func VerifHarness_C10_alice_range_proof_passes_interval_guards_secp() {
	verifC10AliceGuards(tss.S256())
}
func VerifHarness_C10_alice_range_proof_passes_interval_guards_ed() {
	verifC10AliceGuards(tss.Edwards())
}
