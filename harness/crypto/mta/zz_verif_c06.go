//go:build verif

package mta

import (
	"crypto/elliptic"
	"math/big"

	"github.com/bnb-chain/tss-lib/v2/common"
	"github.com/bnb-chain/tss-lib/v2/crypto"
	"github.com/bnb-chain/tss-lib/v2/crypto/paillier"
	"github.com/bnb-chain/tss-lib/v2/tss"
	v "github.com/bnb-chain/tss-lib/v2/zzverifapi"
)

func verifHostilePoint(name string, ec elliptic.Curve) *crypto.ECPoint {
	// every point of secp256k1 (cofactor 1) other than the identity is k*G; on edwards25519
	// this is the prime-order subgroup (small-order components: the C17 harnesses)
	k := v.NondetNat(name + "_k")
	v.Assume("hostile-point-not-identity", !v.CongMod(k, big.NewInt(0), ec.Params().N))
	return crypto.ScalarBaseMult(ec, k)
}

func verifNats(names ...string) []*big.Int {
	out := make([]*big.Int, len(names))
	for i, n := range names {
		out[i] = v.NondetNat(n)
	}
	return out
}

// C06 family 1: RangeProofAlice.Verify returns for arbitrary proof fields,
// Paillier modulus, ring-Pedersen parameters and ciphertext (all >= 0).
func VerifHarness_C06_mta_alice_verify() {
	ec := tss.S256()
	f := verifNats("Z", "U", "W", "S", "S1", "S2")
	pf := &RangeProofAlice{Z: f[0], U: f[1], W: f[2], S: f[3], S1: f[4], S2: f[5]}
	pk := &paillier.PublicKey{N: v.NondetNat("N")}
	a := verifNats("NTilde", "h1", "h2", "c")
	_ = pf.Verify(ec, pk, a[0], a[1], a[2], a[3])
	v.Reach("end")
}

func verifProofBob() *ProofBob {
	f := verifNats("Z", "ZPrm", "T", "V", "W", "S", "S1", "S2", "T1", "T2")
	return &ProofBob{Z: f[0], ZPrm: f[1], T: f[2], V: f[3], W: f[4], S: f[5], S1: f[6], S2: f[7], T1: f[8], T2: f[9]}
}

func VerifHarness_C06_mta_bob_verify() {
	ec := tss.S256()
	pf := verifProofBob()
	pk := &paillier.PublicKey{N: v.NondetNat("N")}
	a := verifNats("NTilde", "h1", "h2", "c1", "c2")
	_ = pf.Verify([]byte("session"), ec, pk, a[0], a[1], a[2], a[3], a[4])
	v.Reach("end")
}

func VerifHarness_C06_mta_bobwc_verify() {
	ec := tss.S256()
	q := ec.Params().N
	pb := verifProofBob()
	U := verifHostilePoint("U", ec)
	X := verifHostilePoint("X", ec)
	pf := &ProofBobWC{ProofBob: pb, U: U}
	pk := &paillier.PublicKey{N: v.NondetNat("N")}
	a := verifNats("NTilde", "h1", "h2", "c1", "c2")
	// coin excluded: Fiat-Shamir challenge ≡ 0 (mod q)
	eHash := common.SHA512_256i_TAGGED([]byte("session"), append(pk.AsInts(), X.X(), X.Y(), a[3], a[4], U.X(), U.Y(), pb.Z, pb.ZPrm, pb.T, pb.V, pb.W)...)
	e := common.RejectionSample(q, eHash)
	v.Assume("challenge-nonzero", e.Sign() != 0)
	_ = pf.Verify([]byte("session"), ec, pk, a[0], a[1], a[2], a[3], a[4], X)
	v.Reach("end")
}

// decoders: any outer arity 0..13, inner lengths 0..2 (symbolic bytes)
func verifParts(maxOuter int) [][]byte {
	n := v.NondetInt("parts", 0, maxOuter)
	out := make([][]byte, 0, maxOuter)
	for i := 0; i < n; i++ {
		out = append(out, v.NondetBytes(v.Name("p", i), v.NondetInt(v.Name("plen", i), 0, 1)))
	}
	return out
}

func VerifHarness_C06_mta_alice_frombytes() {
	_, _ = RangeProofAliceFromBytes(verifParts(8))
	v.Reach("end")
}

func VerifHarness_C06_mta_bob_frombytes() {
	_, _ = ProofBobFromBytes(verifParts(13))
	v.Reach("end")
}

func VerifHarness_C06_mta_bobwc_frombytes() {
	_, _ = ProofBobWCFromBytes(tss.S256(), verifParts(13))
	v.Reach("end")
}
