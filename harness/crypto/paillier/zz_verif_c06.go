//go:build verif

package paillier

import (
	"math/big"

	crypto2 "github.com/bnb-chain/tss-lib/v2/crypto"
	"github.com/bnb-chain/tss-lib/v2/tss"
	v "github.com/bnb-chain/tss-lib/v2/zzverifapi"
)

// C06 family 1: Paillier operations return for arbitrary arguments.
func VerifHarness_C06_paillier_ops() {
	pk := &PublicKey{N: v.NondetNat("N")}
	v.Assume("N>=2", v.LeInt(big.NewInt(2), pk.N)) // own or validated key
	m := v.NondetBigInt("m")
	c1 := v.NondetBigInt("c1")
	c2 := v.NondetBigInt("c2")
	_, _ = pk.HomoMult(m, c1)
	_, _ = pk.HomoAdd(c1, c2)
	_, _, _ = pk.EncryptAndReturnRandomness(v.Reader("r"), m)
	v.Reach("end")
}

func VerifHarness_C06_paillier_proof_verify() {
	ec := tss.EC()
	x := v.NondetNat("pub_x")
	y := v.NondetNat("pub_y")
	pub, err := crypto2.NewECPoint(ec, x, y)
	v.Assume("point-accepted", err == nil)
	var pf Proof
	for i := range pf {
		pf[i] = v.NondetNat(v.Name("pf", i))
	}
	N := v.NondetNat("N")
	// callers check N.BitLen() == 2048 before Proof.Verify (ecdsa/keygen round 2,
	// resharing round 2); GenerateXs does not terminate for other sizes (DESIGN §6)
	two := big.NewInt(2)
	v.Assume("N-has-2048-bits", v.InRange(N, new(big.Int).Exp(two, big.NewInt(2047), nil), new(big.Int).Exp(two, big.NewInt(2048), nil)))
	_, _ = pf.Verify(N, v.NondetNat("k"), pub)
	v.Reach("end")
}
