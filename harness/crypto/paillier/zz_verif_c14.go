//go:build verif

package paillier

import (
	"math/big"

	v "github.com/bnb-chain/tss-lib/v2/zzverifapi"
)

// C14 / C11 domain guards on the real code: values outside the domain are refused with an
// error (no value is returned), for every modulus N >= 2 and every integer argument.
func VerifHarness_C14_domain_guards() { verifC14Domain(nil) }

// the same with a concrete (toy) modulus N = 61*53: a counterexample found here does not
// depend on an uninterpreted gcd and therefore replays natively
func VerifHarness_C14_domain_guards_toy_key() { verifC14Domain(big.NewInt(3233)) }

func verifC14Domain(N *big.Int) {
	if N == nil {
		N = v.NondetNat("N")
		v.Assume("N>=2", v.LeInt(big.NewInt(2), N))
	}
	pk := &PublicKey{N: N}
	N2 := new(big.Int).Mul(N, N)
	zero := big.NewInt(0)
	m := v.NondetBigInt("m")
	c1 := v.NondetBigInt("c1")
	c2 := v.NondetBigInt("c2")
	mBad := v.Any(v.LtInt(m, zero), v.LeInt(N, m))
	c1Bad := v.Any(v.LtInt(c1, zero), v.LeInt(N2, c1))
	c2Bad := v.Any(v.LtInt(c2, zero), v.LeInt(N2, c2))

	v.UnwindAssume(3)
	ct, x, err := pk.EncryptAndReturnRandomness(v.Reader("r"), m)
	v.Assert("encrypt-refuses-exactly-out-of-domain-plaintext", v.Iff(err != nil, mBad))
	v.Assert("encrypt-returns-no-value-on-error", v.Implies(err != nil, ct == nil))
	if err == nil {
		v.Assert("ciphertext-in-range", v.InRange(ct, zero, N2))
		// the encryption randomness is a unit modulo N (otherwise the ciphertext is not decryptable)
		g := new(big.Int).GCD(nil, nil, x, N)
		v.Assert("encryption-randomness-is-a-unit", x.Sign() > 0 && x.Cmp(N) < 0 && g.Cmp(big.NewInt(1)) == 0)
	}
	hm, err := pk.HomoMult(m, c1)
	v.Assert("homomult-refuses-exactly-out-of-domain", v.Iff(err != nil, v.Any(mBad, c1Bad)))
	v.Assert("homomult-returns-no-value-on-error", v.Implies(err != nil, hm == nil))
	ha, err := pk.HomoAdd(c1, c2)
	v.Assert("homoadd-refuses-exactly-out-of-domain", v.Iff(err != nil, v.Any(c1Bad, c2Bad)))
	v.Assert("homoadd-returns-no-value-on-error", v.Implies(err != nil, ha == nil))
	v.Reach("end")
}

// Decrypt refuses ciphertexts outside [0,N^2) and ciphertexts sharing a factor with N^2
func VerifHarness_C14_decrypt_guards() {
	N := v.NondetNat("N")
	v.Assume("N>=2", v.LeInt(big.NewInt(2), N))
	sk := &PrivateKey{PublicKey: PublicKey{N: N}, LambdaN: v.NondetNat("lambda"), PhiN: v.NondetNat("phi")}
	N2 := new(big.Int).Mul(N, N)
	c := v.NondetBigInt("c")
	g := new(big.Int).GCD(nil, nil, c, N2)
	bad := v.Any(v.LtInt(c, big.NewInt(0)), v.LeInt(N2, c), v.LtInt(big.NewInt(1), g))
	v.Assume("out-of-domain-ciphertext", bad)
	pt, err := sk.Decrypt(c)
	v.Assert("decrypt-refuses-out-of-domain-ciphertext", err != nil)
	v.Assert("decrypt-returns-no-value-on-error", pt == nil)
	v.Reach("end")
}
