//go:build verif

// Package zzverifapi is the harness API of the /verif machinery. It is never
// part of /repo: it is injected as an overlay (symbolic run: every function
// here is intercepted by the executor; native replay: the bodies below run and
// read the solver's assignment from the file named by VERIF_REPLAY).
package zzverifapi

import (
	"crypto/sha256"
	"encoding/json"
	"fmt"
	"io"
	"math/big"
	"os"
	"strconv"
	"sync"
)

type replayFile struct {
	Harness string            `json:"harness"`
	Values  map[string]string `json:"values"`
}

var (
	once     sync.Once
	vals     map[string]string
	seen     = map[string]int{}
	mu       sync.Mutex
	Failures []string
	Reached  = map[string]bool{}
)

// AssumeViolated is the panic value used when a replayed assignment violates an
// assumption (the assignment is then not a counterexample).
type AssumeViolated struct{ Label string }

func load() {
	once.Do(func() {
		vals = map[string]string{}
		if f := os.Getenv("VERIF_REPLAY"); f != "" {
			b, err := os.ReadFile(f)
			if err != nil {
				panic(err)
			}
			var rf replayFile
			if err := json.Unmarshal(b, &rf); err != nil {
				panic(err)
			}
			vals = rf.Values
		}
	})
}

// lookupOK is lookup that also reports whether the replay file has a value for name.
func lookupOK(name string) (*big.Int, bool) {
	load()
	mu.Lock()
	key := name
	if n := seen[name]; n > 0 {
		key = name + "#" + strconv.Itoa(n)
	}
	_, ok := vals[key]
	mu.Unlock()
	return lookup(name), ok
}

func lookup(name string) *big.Int {
	load()
	mu.Lock()
	defer mu.Unlock()
	key := name
	if n := seen[name]; n > 0 {
		key = name + "#" + strconv.Itoa(n)
	}
	seen[name]++
	v := new(big.Int)
	if s, ok := vals[key]; ok {
		v.SetString(s, 10)
	} else if d := os.Getenv("VERIF_DEFAULT"); d != "" {
		v.SetString(d, 10) // concrete-mode smoke runs
	}
	return v
}

func NondetBigInt(name string) *big.Int { return lookup(name) }
func NondetNat(name string) *big.Int    { return lookup(name) }
func NondetBool(name string) bool       { return lookup(name).Sign() != 0 }
func NondetByte(name string) byte       { return byte(lookup(name).Uint64()) }
func NondetBytes(name string, n int) []byte {
	out := make([]byte, n)
	for i := range out {
		out[i] = byte(lookup(name + "_" + strconv.Itoa(i)).Uint64())
	}
	return out
}
func NondetInt64(name string) int64   { return int64(lookup(name).Uint64()) }
func NondetUint64(name string) uint64 { return lookup(name).Uint64() }
func NondetUint32(name string) uint32 { return uint32(lookup(name).Uint64()) }
func NondetInt(name string, lo, hi int) int {
	v := int(int64(lookup(name).Uint64()))
	if v < lo || v > hi {
		panic(AssumeViolated{"range of " + name})
	}
	return v
}

func Assume(label string, c bool) {
	if !c {
		panic(AssumeViolated{label})
	}
}

func Assert(label string, c bool) {
	if !c {
		mu.Lock()
		Failures = append(Failures, label)
		mu.Unlock()
		fmt.Printf("VERIF-ASSERT-FAILED %s\n", label)
	}
}

// Observe is an obligation like Assert, but the path continues unconstrained
// whatever its verdict (used where a recorded known finding would otherwise cut
// the path short).
func Observe(label string, c bool) { Assert(label, c) }

func Reach(label string) {
	mu.Lock()
	Reached[label] = true
	mu.Unlock()
}

func Name(prefix string, i int) string { return prefix + "_" + strconv.Itoa(i) }

func All(cs ...bool) bool {
	for _, c := range cs {
		if !c {
			return false
		}
	}
	return true
}

func Any(cs ...bool) bool {
	for _, c := range cs {
		if c {
			return true
		}
	}
	return false
}

func Implies(a, b bool) bool { return !a || b }
func Iff(a, b bool) bool     { return a == b }
func Not(a bool) bool        { return !a }

func Ite(c bool, x, y *big.Int) *big.Int {
	if c {
		return x
	}
	return y
}

// Symbolic reports whether the harness runs under the symbolic executor.
func Symbolic() bool { return false }

func Note(s string) {}

func EqBytes(a, b []byte) bool {
	if len(a) != len(b) {
		return false
	}
	for i := range a {
		if a[i] != b[i] {
			return false
		}
	}
	return true
}

func EqInt(a, b *big.Int) bool { return a.Cmp(b) == 0 }
func LtInt(a, b *big.Int) bool { return a.Cmp(b) < 0 }
func LeInt(a, b *big.Int) bool { return a.Cmp(b) <= 0 }

func CongMod(a, b, m *big.Int) bool {
	d := new(big.Int).Sub(a, b)
	return d.Mod(d, m).Sign() == 0
}

func InRange(x, lo, hi *big.Int) bool { return lo.Cmp(x) <= 0 && x.Cmp(hi) < 0 }

// Reader returns the randomness source for code under test. Symbolically every
// read yields fresh unconstrained values named name#k; natively the values of
// the replay file are served (big-endian, sized to the request).
func Reader(name string) io.Reader { return &replayReader{name: name} }

// ReaderWith is Reader with a coin predicate: every value drawn (k-th draw, as
// an integer) is assumed to satisfy pred — the explicit, counted exclusion of
// negligible-probability events of honest randomness.
func ReaderWith(name string, pred func(k int, x *big.Int) bool) io.Reader {
	return &replayReader{name: name, pred: pred}
}

type replayReader struct {
	name string
	n    int
	pred func(k int, x *big.Int) bool
}

func (r *replayReader) Read(p []byte) (int, error) {
	key := r.name + "#" + strconv.Itoa(r.n)
	v, ok := lookupOK(key)
	if !ok && os.Getenv("VERIF_DEFAULT") == "" {
		// a draw the solver's model says nothing about was unconstrained on that path: any value
		// is an instance of it. A deterministic pseudo-random one is used (zeros would make
		// rejection samplers of the real code spin forever).
		var stream []byte
		for ctr := 0; len(stream) < len(p); ctr++ {
			h := sha256.Sum256([]byte(key + "/" + strconv.Itoa(ctr)))
			stream = append(stream, h[:]...)
		}
		copy(p, stream)
		v = new(big.Int).SetBytes(p)
		if r.pred != nil && !r.pred(r.n, v) {
			panic(AssumeViolated{"coin-predicate:" + r.name})
		}
		r.n++
		return len(p), nil
	}
	if r.pred != nil && !r.pred(r.n, v) {
		panic(AssumeViolated{"coin-predicate:" + r.name})
	}
	r.n++
	bs := v.Bytes()
	for i := range p {
		p[i] = 0
	}
	if len(bs) > len(p) {
		bs = bs[len(bs)-len(p):]
	}
	copy(p[len(p)-len(bs):], bs)
	return len(p), nil
}

// Summarise selects a checked summary for a callee in this harness (symbolic
// mode only; natively the real code runs).
func Summarise(fn string) {}

// NoSummaries makes the executor run the module's sampling helpers from their
// real code instead of their checked summaries.
func NoSummaries() {}

// UnwindAssume(k) states the unwinding assumption: loops exit within k
// iterations (paths needing more are assumed away and counted).
func UnwindAssume(k int) {}
