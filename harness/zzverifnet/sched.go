//go:build verif

package zzverifnet

import (
	"github.com/bnb-chain/tss-lib/v2/tss"
	v "github.com/bnb-chain/tss-lib/v2/zzverifapi"
)

// Delivery is one (message, recipient) pair in flight.
type Delivery struct {
	Msg tss.Message
	To  *tss.PartyID
}

// Mode of the scheduler.
const (
	FIFO   = 0 // oldest first
	LIFO   = 1 // newest first
	Choose = 2 // every order: the next delivery is a nondeterministic choice (exhaustive)
	Starve = 3 // deliveries to party StarveIdx last
)

type Sched struct {
	Parties   []tss.Party
	Out       chan tss.Message
	Mode      int
	StarveIdx int
	Dup       bool // deliver every message twice
	Hook      Hook
	// After is called after every single delivery (C08 checks)
	After func(d Delivery, ok bool, err *tss.Error)
	// Before is called before every single delivery (C08 wrong-channel probe)
	Before func(d Delivery)
	// Sent is called for every message taken from the out channel
	Sent    func(msg tss.Message)
	pending []Delivery
	Errs    []UpdateErr
	step    int
}

func (s *Sched) drain() {
	for {
		select {
		case msg := <-s.Out:
			if s.Sent != nil {
				s.Sent(msg)
			}
			dests := msg.GetTo()
			if dests == nil {
				for _, p := range s.Parties {
					if p.PartyID().Index != msg.GetFrom().Index {
						dests = append(dests, p.PartyID())
					}
				}
			}
			for _, d := range dests {
				s.pending = append(s.pending, Delivery{msg, d})
				if s.Dup {
					s.pending = append(s.pending, Delivery{msg, d})
				}
			}
		default:
			return
		}
	}
}

func (s *Sched) pick() int {
	n := len(s.pending)
	switch s.Mode {
	case LIFO:
		return n - 1
	case Choose:
		return v.NondetInt(v.Name("pick", s.step), 0, n-1)
	case Starve:
		for i, d := range s.pending {
			if d.To.Index != s.StarveIdx {
				return i
			}
		}
	}
	return 0
}

// Run delivers until nothing is pending.
func (s *Sched) Run() {
	s.drain()
	for len(s.pending) > 0 {
		i := s.pick()
		s.step++
		d := s.pending[i]
		s.pending = append(s.pending[:i:i], s.pending[i+1:]...)
		if s.Before != nil {
			s.Before(d)
		}
		var pm tss.ParsedMessage
		if s.Hook != nil {
			pm = s.Hook(d.Msg, d.To)
		} else {
			pm = parse(d.Msg)
		}
		if pm != nil {
			ok, err := s.Parties[d.To.Index].Update(pm)
			if err != nil {
				s.Errs = append(s.Errs, UpdateErr{d.To.Index, err})
			}
			if s.After != nil {
				s.After(d, ok, err)
			}
		}
		s.drain()
	}
}
