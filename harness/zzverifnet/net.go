//go:build verif

// Package zzverifnet is the canonical-schedule message driver used by the
// protocol harnesses: FIFO delivery of everything on the out channel, through
// the real WireBytes / ParseWireMessage path, until the channel is empty.
package zzverifnet

import (
	"github.com/bnb-chain/tss-lib/v2/tss"
)

// Hook lets a harness observe or replace a message before it is delivered to
// one recipient (nil = deliver unchanged; return nil to drop).
type Hook func(msg tss.Message, to *tss.PartyID) tss.ParsedMessage

// Pump delivers messages until out is empty. It returns the errors reported by
// Update calls (with the index of the reporting party).
type UpdateErr struct {
	At  int
	Err *tss.Error
}

func parse(msg tss.Message) tss.ParsedMessage {
	bz, _, err := msg.WireBytes()
	if err != nil {
		panic("WireBytes failed")
	}
	pm, err := tss.ParseWireMessage(bz, msg.GetFrom(), msg.IsBroadcast())
	if err != nil {
		panic("ParseWireMessage failed")
	}
	return pm
}

// ParseAs sends msg through the wire path but hands it over on the given channel kind
// (isBroadcast as the transport claims it), which may differ from the kind it was sent on
func ParseAs(msg tss.Message, isBroadcast bool) tss.ParsedMessage {
	bz, _, err := msg.WireBytes()
	if err != nil {
		panic("WireBytes failed")
	}
	pm, err := tss.ParseWireMessage(bz, msg.GetFrom(), isBroadcast)
	if err != nil {
		panic("ParseWireMessage failed")
	}
	return pm
}

func Pump(parties []tss.Party, out chan tss.Message, hook Hook) []UpdateErr {
	var errs []UpdateErr
	for {
		var msg tss.Message
		select {
		case msg = <-out:
		default:
			return errs
		}
		dests := msg.GetTo()
		if dests == nil {
			for _, p := range parties {
				if p.PartyID().Index == msg.GetFrom().Index {
					continue
				}
				dests = append(dests, p.PartyID())
			}
		}
		for _, d := range dests {
			var pm tss.ParsedMessage
			if hook != nil {
				pm = hook(msg, d)
				if pm == nil {
					continue
				}
			} else {
				pm = parse(msg)
			}
			if _, err := parties[d.Index].Update(pm); err != nil {
				errs = append(errs, UpdateErr{d.Index, err})
			}
		}
	}
}

// Parse exposes the wire round trip to hooks.
func Parse(msg tss.Message) tss.ParsedMessage { return parse(msg) }
