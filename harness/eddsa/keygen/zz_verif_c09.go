//go:build verif

package keygen

import (
	"sync"

	"github.com/bnb-chain/tss-lib/v2/tss"
	v "github.com/bnb-chain/tss-lib/v2/zzverifapi"
	net "github.com/bnb-chain/tss-lib/v2/zzverifnet"
)

// C09 (EdDSA keygen, n=2): every message addressed to party 0 is delivered by its own
// goroutine, concurrently with a goroutine polling WaitingFor and (variant) with a goroutine
// feeding a malformed wire message to UpdateFromBytes. The executor
//   - tracks happens-before between the goroutines (go statement, mutex, wait group, channel)
//     and reports every pair of conflicting accesses to party state that is not ordered
//     ("hb-race": a data race in every schedule that performs both accesses),
//   - explores the goroutine interleavings at lock granularity (preemption before Lock and
//     after Unlock, bounded number of preemptions per path, plus every order in which the
//     scheduler can pick the next runnable goroutine), all coins symbolic,
// and in every explored interleaving the run must end like a sequential delivery: no Update
// error, exactly one result per party, results satisfying the C03 predicate.
func verifC09(malformed bool, preempt string) {
	v.Summarise("hb-race")
	if preempt != "" {
		v.Summarise(preempt)
	}
	n, t := 2, 1
	parties, out, end := verifSetup(n, t, 0)
	for i := range parties {
		v.Assert("start-succeeds", parties[i].Start() == nil)
	}
	// everything party 0 sent so far goes to party 1 sequentially; what party 1 sends is
	// collected as party 0's inbox
	var inbox []tss.ParsedMessage
	deliverTo1 := func() {
		for {
			select {
			case msg := <-out:
				pm := verifCoinHook(msg, nil)
				if msg.GetFrom().Index == 0 {
					_, err := parties[1].Update(pm)
					v.Assert("no-update-errors", err == nil)
				} else {
					inbox = append(inbox, pm)
				}
			default:
				return
			}
		}
	}
	deliverTo1()
	v.Assert("party-1-produced-its-three-messages", len(inbox) == 3)
	if len(inbox) != 3 {
		return
	}
	// concurrent delivery to party 0
	var wg sync.WaitGroup
	errs := make([]*tss.Error, len(inbox))
	for i := range inbox {
		i := i
		wg.Add(1)
		go func() {
			defer wg.Done()
			_, errs[i] = parties[0].Update(inbox[i])
		}()
	}
	wg.Add(1)
	go func() {
		defer wg.Done()
		_ = parties[0].WaitingFor()
		_ = parties[0].WaitingFor()
	}()
	if malformed {
		wg.Add(1)
		go func() {
			defer wg.Done()
			// bytes that are not a wire message: must be refused with an error, without touching
			// party state unsynchronised
			_, err := parties[0].UpdateFromBytes([]byte{0xff, 0x01}, parties[1].PartyID(), true)
			v.Assert("malformed-wire-message-refused", err != nil)
		}()
	}
	wg.Wait()
	for i := range errs {
		v.Assert("no-update-errors", errs[i] == nil)
	}
	// party 0's round 2 messages reach party 1
	deliverTo1()
	saves := make([]*LocalPartySaveData, n)
	for i := 0; i < n; i++ {
		select {
		case sv := <-end:
			idx, err := sv.OriginalIndex()
			v.Assert("original-index", err == nil)
			v.Assert("one-result-per-party", saves[idx] == nil)
			saves[idx] = sv
		default:
			v.Assert("every-party-finishes (no deadlock)", false)
			return
		}
	}
	select {
	case <-end:
		v.Assert("exactly-one-result-per-party", false)
	default:
	}
	verifUs = verifUsByParty
	verifC03Check(saves, n, t)
	v.Reach("end")
}

var _ = net.FIFO

func VerifHarness_C09_eddsa_keygen_concurrent_updates()           { verifC09(false, "") }
func VerifHarness_C09_eddsa_keygen_concurrent_updates_preempt2()  { verifC09(false, "preempt-2") }
func VerifHarness_C09_eddsa_keygen_concurrent_with_malformed()    { verifC09(true, "") }
