//go:build verif

package keygen

import (
	"math/big"

	"github.com/bnb-chain/tss-lib/v2/crypto"
	"github.com/bnb-chain/tss-lib/v2/tss"
	v "github.com/bnb-chain/tss-lib/v2/zzverifapi"
)

// C20 (EdDSA): BuildLocalSaveDataSubset for every ordered choice of 1..3 distinct signers out
// of four saved parties: every per-party array of the subset is re-indexed by the signer's own
// source index, the caller's saved data is untouched BY THE CALL ITSELF (so that the same
// in-memory key can serve a later session with another committee), and the subset's arrays
// are fresh slices.
func VerifHarness_C20_eddsa_subset_reindexing() {
	ec := tss.Edwards()
	keys := []*big.Int{big.NewInt(7), big.NewInt(300), new(big.Int).Lsh(big.NewInt(1), 250), big.NewInt(65536)}
	n := len(keys)
	src := NewLocalPartySaveData(n)
	src.Xi, src.ShareID = v.NondetNat("xi"), keys[0]
	src.EDDSAPub = crypto.ScalarBaseMult(ec, big.NewInt(5))
	pts := make([]*crypto.ECPoint, n)
	for j := 0; j < n; j++ {
		src.Ks[j] = keys[j]
		pts[j] = crypto.ScalarBaseMult(ec, big.NewInt(int64(j+2)))
		src.BigXj[j] = pts[j]
	}
	k := v.NondetInt("k", 1, 3)
	pick := make([]int, k)
	ids := make(tss.UnSortedPartyIDs, 0, k)
	for i := 0; i < k; i++ {
		pick[i] = v.NondetInt(v.Name("pick", i), 0, n-1)
		for _, p := range pick[:i] {
			v.Assume("distinct-signers", p != pick[i])
		}
		ids = append(ids, tss.NewPartyID(v.Name("id", i), "", keys[pick[i]]))
	}
	for i := range ids {
		ids[i].Index = i
	}
	sub := BuildLocalSaveDataSubset(src, tss.SortedPartyIDs(ids))
	v.Assert("subset-has-k-entries", len(sub.Ks) == k && len(sub.BigXj) == k)
	for i := 0; i < k; i++ {
		s := pick[i]
		v.Assert("entry-is-the-signers-own-data", sub.Ks[i] == keys[s] && sub.BigXj[i] == pts[s])
	}
	v.Assert("secrets-and-public-key-carried-over", sub.Xi == src.Xi && sub.ShareID == src.ShareID && sub.EDDSAPub == src.EDDSAPub)
	// the call itself leaves the saved data as it was
	v.Assert("source-has-all-entries", len(src.Ks) == n && len(src.BigXj) == n)
	for j := 0; j < n && j < len(src.Ks) && j < len(src.BigXj); j++ {
		v.Assert("source-untouched-by-the-call", src.Ks[j] == keys[j] && src.BigXj[j] == pts[j])
	}
	// fresh slices: writing the subset does not write the source
	sub.Ks[0], sub.BigXj[0] = nil, nil
	for j := 0; j < n && j < len(src.Ks) && j < len(src.BigXj); j++ {
		v.Assert("source-untouched", src.Ks[j] == keys[j] && src.BigXj[j] == pts[j])
	}
	v.Reach("end")
}
