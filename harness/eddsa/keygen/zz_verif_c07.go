//go:build verif

package keygen

import (
	"math/big"

	"github.com/bnb-chain/tss-lib/v2/tss"
	v "github.com/bnb-chain/tss-lib/v2/zzverifapi"
	net "github.com/bnb-chain/tss-lib/v2/zzverifnet"
)

func verifSetup(n, t, keyset int) ([]tss.Party, chan tss.Message, chan *LocalPartySaveData) {
	ec := tss.Edwards()
	keys := verifKeys(n, keyset)
	ids := make(tss.UnSortedPartyIDs, n)
	for i := range ids {
		ids[i] = tss.NewPartyID(v.Name("id", i), v.Name("P", i), keys[i])
	}
	pIDs := tss.SortPartyIDs(ids)
	ctx := tss.NewPeerContext(pIDs)
	out := make(chan tss.Message, 256)
	end := make(chan *LocalPartySaveData, 2*n)
	parties := make([]tss.Party, n)
	verifUs = nil
	us := make([]*big.Int, n)
	for i := 0; i < n; i++ {
		i := i
		params := tss.NewParameters(ec, ctx, pIDs[i], n, t)
		params.SetRand(v.ReaderWith(v.Name("rand", i), verifNonZero))
		params.SetPartialKeyRand(v.ReaderWith(v.Name("key", i), func(k int, x *big.Int) bool {
			if k == 0 {
				us[i] = x
			}
			return x.Sign() != 0
		}))
		parties[i] = NewLocalParty(params, out, end)
	}
	verifUsByParty = us
	return parties, out, end
}

var verifUsByParty []*big.Int

// ---- C08 bookkeeping: routing table and WaitingFor exactness ----

type verifC08 struct {
	parties []tss.Party
	n       int
	sentR1  []int
	sentR22 []int
	sentR21 [][]int
	started []bool // Start() has returned for party i
	out     chan tss.Message
	end     chan *LocalPartySaveData
	probes  int
}

func (c *verifC08) lp(i int) *LocalParty { return c.parties[i].(*LocalParty) }

func (c *verifC08) sent(msg tss.Message) {
	from := msg.GetFrom().Index
	lp := c.lp(from)
	pm := msg.(tss.ParsedMessage)
	switch pm.Content().(type) {
	case *KGRound1Message:
		c.sentR1[from]++
		v.Assert("r1-is-broadcast-to-all", msg.IsBroadcast() && msg.GetTo() == nil)
		v.Assert("r1-sent-once", c.sentR1[from] == 1)
	case *KGRound2Message1:
		to := msg.GetTo()
		v.Assert("r2m1-is-p2p-to-one", !msg.IsBroadcast() && len(to) == 1)
		if len(to) == 1 {
			v.Assert("r2m1-not-to-self", to[0].Index != from)
			c.sentR21[from][to[0].Index]++
			v.Assert("r2m1-once-per-recipient", c.sentR21[from][to[0].Index] == 1)
		}
		for j := 0; j < c.n; j++ {
			v.Assert("r2-only-after-all-r1", lp.temp.kgRound1Messages[j] != nil)
		}
	case *KGRound2Message2:
		c.sentR22[from]++
		v.Assert("r2m2-is-broadcast-to-all", msg.IsBroadcast() && msg.GetTo() == nil)
		v.Assert("r2m2-sent-once", c.sentR22[from] == 1)
		for j := 0; j < c.n; j++ {
			v.Assert("r2-only-after-all-r1", lp.temp.kgRound1Messages[j] != nil)
		}
	default:
		v.Assert("only-prescribed-message-types", false)
	}
}

// expected waiting set of party i from its message store
func (c *verifC08) want(i int) []bool {
	lp := c.lp(i)
	w := make([]bool, c.n)
	any := false
	for j := 0; j < c.n; j++ {
		if lp.temp.kgRound1Messages[j] == nil {
			w[j] = true
			any = true
		}
	}
	if any {
		return w
	}
	for j := 0; j < c.n; j++ {
		if lp.temp.kgRound2Message1s[j] == nil || lp.temp.kgRound2Message2s[j] == nil {
			w[j] = true
		}
	}
	return w
}

func (c *verifC08) after(d net.Delivery, ok bool, err *tss.Error) {
	i := d.To.Index
	got := make([]bool, c.n)
	for _, p := range c.parties[i].WaitingFor() {
		got[p.Index] = true
	}
	want := c.want(i)
	if !c.started[i] {
		// before Start the party has no current round: nothing is awaited yet (messages that
		// arrive early are stored and evaluated once the round exists)
		for j := 0; j < c.n; j++ {
			v.Observe("waitingfor-empty-before-start", !got[j])
		}
		return
	}
	finished := true
	for j := 0; j < c.n; j++ {
		if want[j] {
			finished = false
		}
	}
	for j := 0; j < c.n; j++ {
		if finished {
			// the last round needs no message: nobody is awaited any more
			v.Observe("waitingfor-empty-after-last-round-started", got[j] == want[j])
		} else {
			// Observe: a wrong answer here (C08) must not hide what happens afterwards (C07)
			v.Observe("waitingfor-exact", got[j] == want[j])
		}
	}
}

// C08 channel discipline: before a message is delivered properly, the same wire bytes are
// handed to the recipient on the WRONG channel kind (a broadcast-type message as
// point-to-point, a point-to-point one as broadcast). Whatever Update answers, the party
// must not consume it: its waiting set is unchanged, it sends nothing and emits no result.
func (c *verifC08) wrongChannel(d net.Delivery) {
	i := d.To.Index
	if !c.started[i] {
		return
	}
	before := make([]bool, c.n)
	for _, p := range c.parties[i].WaitingFor() {
		before[p.Index] = true
	}
	nOut, nEnd := len(c.out), len(c.end)
	pm := net.ParseAs(d.Msg, !d.Msg.IsBroadcast())
	c.parties[i].Update(pm)
	after := make([]bool, c.n)
	for _, p := range c.parties[i].WaitingFor() {
		after[p.Index] = true
	}
	for j := 0; j < c.n; j++ {
		v.Assert("wrong-channel-message-is-not-consumed (waiting set unchanged)", before[j] == after[j])
	}
	v.Assert("wrong-channel-message-triggers-no-send", len(c.out) == nOut)
	v.Assert("wrong-channel-message-triggers-no-result", len(c.end) == nEnd)
	c.probes++
}

func verifNewC08(parties []tss.Party) *verifC08 {
	n := len(parties)
	c := &verifC08{parties: parties, n: n, sentR1: make([]int, n), sentR22: make([]int, n), sentR21: make([][]int, n), started: make([]bool, n)}
	for i := range c.sentR21 {
		c.sentR21[i] = make([]int, n)
	}
	return c
}

func (c *verifC08) final() {
	for i := 0; i < c.n; i++ {
		v.Assert("every-party-sent-r1", c.sentR1[i] == 1)
		v.Assert("every-party-sent-r2m2", c.sentR22[i] == 1)
		for j := 0; j < c.n; j++ {
			if j != i {
				v.Assert("every-party-sent-r2m1-to-each-peer", c.sentR21[i][j] == 1)
			}
		}
	}
}

// C07/C08: one complete run under the given delivery discipline; the result must satisfy C03
func verifC07Run(n, t, mode int, dup, preStart bool, starve int) {
	parties, out, end := verifSetup(n, t, 0)
	c8 := verifNewC08(parties)
	s := &net.Sched{Parties: parties, Out: out, Mode: mode, Dup: dup, StarveIdx: starve, Hook: verifCoinHook, After: c8.after, Sent: c8.sent}
	if verifC08WrongChannel {
		c8.out, c8.end = out, end
		s.Before = c8.wrongChannel
		s.After = nil // the store-based WaitingFor expectation does not apply while a refused message sits in a slot
	}
	if preStart {
		// party 0 starts alone; its first message reaches the others before their Start
		v.Assert("start-succeeds", parties[0].Start() == nil)
		c8.started[0] = true
		s.Run()
		for i := 1; i < n; i++ {
			v.Assert("start-succeeds", parties[i].Start() == nil)
			c8.started[i] = true
		}
	} else {
		for i := range parties {
			v.Assert("start-succeeds", parties[i].Start() == nil)
			c8.started[i] = true
		}
	}
	s.Run()
	v.Assert("no-update-errors", len(s.Errs) == 0)
	if verifC08WrongChannel {
		v.Assert("wrong-channel-probes-were-made", c8.probes > 0)
	}
	c8.final()
	saves := make([]*LocalPartySaveData, n)
	for i := 0; i < n; i++ {
		select {
		case sv := <-end:
			idx, err := sv.OriginalIndex()
			v.Assert("original-index", err == nil)
			v.Assert("one-result-per-party", saves[idx] == nil)
			saves[idx] = sv
		default:
			v.Assert("every-party-finishes (no deadlock)", false)
			return
		}
	}
	select {
	case <-end:
		v.Assert("exactly-one-result-per-party", false)
	default:
	}
	verifUs = verifUsByParty
	verifC03Check(saves, n, t)
}

var verifC08WrongChannel = false

func VerifHarness_C08_eddsa_keygen_n2_wrong_channel_fifo() {
	verifC08WrongChannel = true
	verifC07Run(2, 1, net.FIFO, false, false, 0)
}
func VerifHarness_C08_eddsa_keygen_n3_wrong_channel_lifo() {
	verifC08WrongChannel = true
	verifC07Run(3, 1, net.LIFO, false, false, 0)
}
func VerifHarness_C08_eddsa_keygen_n3_wrong_channel_fifo() {
	verifC08WrongChannel = true
	verifC07Run(3, 1, net.FIFO, false, false, 0)
}

func VerifHarness_C07_eddsa_keygen_n2_all_orders() { verifC07Run(2, 1, net.Choose, false, false, 0) }
func VerifHarness_C07_eddsa_keygen_n2_dup_all_orders() {
	verifC07Run(2, 1, net.Choose, true, false, 0)
}
func VerifHarness_C07_eddsa_keygen_n2_prestart_all_orders() {
	verifC07Run(2, 1, net.Choose, false, true, 0)
}
func VerifHarness_C07_eddsa_keygen_n3_fifo()    { verifC07Run(3, 1, net.FIFO, false, false, 0) }
func VerifHarness_C07_eddsa_keygen_n3_lifo()    { verifC07Run(3, 1, net.LIFO, false, false, 0) }
func VerifHarness_C07_eddsa_keygen_n3_starve1() { verifC07Run(3, 1, net.Starve, false, false, 1) }
func VerifHarness_C07_eddsa_keygen_n3_prestart_lifo() {
	verifC07Run(3, 2, net.LIFO, false, true, 0)
}
