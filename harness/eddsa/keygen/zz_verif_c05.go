//go:build verif

package keygen

import (
	"math/big"

	"github.com/bnb-chain/tss-lib/v2/crypto"
	"github.com/bnb-chain/tss-lib/v2/tss"
	v "github.com/bnb-chain/tss-lib/v2/zzverifapi"
	net "github.com/bnb-chain/tss-lib/v2/zzverifnet"
)

// an arbitrary field value: any byte string without leading zeros (as absBytes of an
// arbitrary integer, empty for 0), or — for the field selected by zeroField — the single
// zero byte (value 0 that passes the non-empty check)
type verifHostile struct {
	zeroField int
	nextField int
}

func (h *verifHostile) field(name string) []byte {
	k := h.nextField
	h.nextField++
	if k == h.zeroField {
		return []byte{0}
	}
	return v.NondetNat(name).Bytes()
}

// C05 / C06 family 2 for EdDSA keygen: party a deviates arbitrarily (every field of every
// message it sends is unconstrained); the honest parties never panic, blame only P_a, and
// if they finish they hold identical, consistent key data.
func verifC05Keygen(n, t, a int) {
	parties, out, end := verifSetup(n, t, 0)
	ec := tss.Edwards()
	q := ec.Params().N
	h := &verifHostile{zeroField: v.NondetInt("zero_field", -1, 6+2*(t+1))}
	hook := func(msg tss.Message, to *tss.PartyID) tss.ParsedMessage {
		pm := net.Parse(msg)
		if msg.GetFrom().Index != a {
			if c, ok := pm.Content().(*KGRound2Message2); ok {
				v.Assume("schnorr-response-nonzero", len(c.GetProofT()) > 0) // honest coin
			}
			return pm
		}
		// replace the content, keep type and routing
		tag := v.Name("to", to.Index)
		var content tss.MessageContent
		switch pm.Content().(type) {
		case *KGRound1Message:
			content = &KGRound1Message{Commitment: h.field("adv_commitment_" + tag)}
		case *KGRound2Message1:
			content = &KGRound2Message1{Share: h.field("adv_share_" + tag)}
		case *KGRound2Message2:
			dn := v.NondetInt("adv_decommit_len_"+tag, 0, 2*(t+1)+2)
			dc := make([][]byte, 0, 2*(t+1)+2)
			for k := 0; k < dn; k++ {
				dc = append(dc, h.field(v.Name("adv_decommit_"+tag, k)))
			}
			content = &KGRound2Message2{DeCommitment: dc, ProofAlphaX: h.field("adv_ax_" + tag), ProofAlphaY: h.field("adv_ay_" + tag), ProofT: h.field("adv_t_" + tag)}
		default:
			return pm
		}
		meta := tss.MessageRouting{From: msg.GetFrom(), To: msg.GetTo(), IsBroadcast: msg.IsBroadcast()}
		return tss.NewMessage(meta, content, tss.NewMessageWrapper(meta, content))
	}
	s := &net.Sched{Parties: parties, Out: out, Mode: net.FIFO, Hook: hook}
	for i := range parties {
		v.Assert("start-succeeds", parties[i].Start() == nil)
	}
	s.Run()
	for _, e := range s.Errs {
		if e.At == a {
			continue // the deviating party's own view is irrelevant
		}
		cs := e.Err.Culprits()
		v.Assert("error-names-exactly-the-deviating-party", len(cs) == 1 && cs[0].Index == a)
	}
	// collect results of honest parties
	var saves []*LocalPartySaveData
	for {
		select {
		case sv := <-end:
			idx, err := sv.OriginalIndex()
			v.Assert("original-index", err == nil)
			if idx != a {
				saves = append(saves, sv)
			}
			continue
		default:
		}
		break
	}
	for _, sv := range saves {
		idx, _ := sv.OriginalIndex()
		v.Assert("honest-outputs-agree-on-pub", sv.EDDSAPub.Equals(saves[0].EDDSAPub))
		for j := 0; j < n; j++ {
			v.Assert("honest-outputs-agree-on-bigxj", sv.BigXj[j].Equals(saves[0].BigXj[j]))
		}
		v.Assume("share-nonzero", !v.CongMod(sv.Xi, big.NewInt(0), q))
		v.Assert("honest-share-matches-its-public-point", crypto.ScalarBaseMult(ec, sv.Xi).Equals(sv.BigXj[idx]))
	}
	v.Reach("end")
}

func VerifHarness_C05_eddsa_keygen_n2_adv1()   { verifC05Keygen(2, 1, 1) }
func VerifHarness_C05_eddsa_keygen_n3t1_adv2() { verifC05Keygen(3, 1, 2) }
func VerifHarness_C05_eddsa_keygen_n3t1_adv0() { verifC05Keygen(3, 1, 0) }
func VerifHarness_C05_eddsa_keygen_n3t2_adv1() { verifC05Keygen(3, 2, 1) }
