//go:build verif

package keygen

import (
	"math/big"

	"github.com/bnb-chain/tss-lib/v2/crypto"
	"github.com/bnb-chain/tss-lib/v2/tss"
	v "github.com/bnb-chain/tss-lib/v2/zzverifapi"
	net "github.com/bnb-chain/tss-lib/v2/zzverifnet"
)

func verifKeys(n int, set int) []*big.Int {
	q := tss.Edwards().Params().N
	switch set {
	case 1: // large keys, one above the group order
		ks := []*big.Int{new(big.Int).Sub(q, big.NewInt(1)), new(big.Int).Add(q, big.NewInt(2)), new(big.Int).Lsh(big.NewInt(1), 255), big.NewInt(7)}
		return ks[:n]
	}
	ks := []*big.Int{big.NewInt(1), big.NewInt(2), big.NewInt(3), big.NewInt(4)}
	return ks[:n]
}

func verifNonZero(k int, x *big.Int) bool { return x.Sign() != 0 }

var verifUs []*big.Int

// Lagrange coefficient at 0 for index j of the subset (written from the textbook formula)
func verifLagrange0(q *big.Int, ks []*big.Int, subset []int, j int) *big.Int {
	num, den := big.NewInt(1), big.NewInt(1)
	for _, m := range subset {
		if m == j {
			continue
		}
		num.Mul(num, ks[m])
		num.Mod(num, q)
		d := new(big.Int).Sub(ks[m], ks[j])
		den.Mul(den, d.Mod(d, q))
		den.Mod(den, q)
	}
	inv := new(big.Int).ModInverse(den, q)
	return num.Mul(num, inv).Mod(num, q)
}

func verifSubsets(n, k int) [][]int {
	var out [][]int
	var rec func(start int, cur []int)
	rec = func(start int, cur []int) {
		if len(cur) == k {
			out = append(out, append([]int{}, cur...))
			return
		}
		for i := start; i < n; i++ {
			rec(i+1, append(cur, i))
		}
	}
	rec(0, nil)
	return out
}

// coins excluded on honest messages: a Schnorr response equal to 0 mod q
// (probability 2^-252; the verifier rejects it)
func verifCoinHook(msg tss.Message, to *tss.PartyID) tss.ParsedMessage {
	pm := net.Parse(msg)
	if c, ok := pm.Content().(*KGRound2Message2); ok {
		v.Assume("schnorr-response-nonzero", len(c.GetProofT()) > 0)
	}
	return pm
}

// runs EdDSA keygen for n parties in the canonical schedule and returns the save data
func verifRunKeygen(n, t, keyset int) []*LocalPartySaveData {
	ec := tss.Edwards()
	keys := verifKeys(n, keyset)
	ids := make(tss.UnSortedPartyIDs, n)
	for i := range ids {
		ids[i] = tss.NewPartyID(v.Name("id", i), v.Name("P", i), keys[i])
	}
	pIDs := tss.SortPartyIDs(ids)
	ctx := tss.NewPeerContext(pIDs)
	out := make(chan tss.Message, 256)
	end := make(chan *LocalPartySaveData, n)
	parties := make([]tss.Party, n)
	for i := 0; i < n; i++ {
		params := tss.NewParameters(ec, ctx, pIDs[i], n, t)
		// coins excluded: a sampled secret / coefficient / nonce equal to 0 (2^-252 each)
		params.SetRand(v.ReaderWith(v.Name("rand", i), verifNonZero))
		params.SetPartialKeyRand(v.ReaderWith(v.Name("key", i), func(k int, x *big.Int) bool {
			if k == 0 {
				verifUs = append(verifUs, x) // the party's contribution u_i
			}
			return x.Sign() != 0
		}))
		parties[i] = NewLocalParty(params, out, end)
	}
	for i := range parties {
		err := parties[i].Start()
		v.Assert("start-succeeds", err == nil)
	}
	errs := net.Pump(parties, out, verifCoinHook)
	if len(errs) > 0 {
		v.Note("update error: " + errs[0].Err.Cause().Error())
	}
	v.Assert("no-update-errors", len(errs) == 0)
	saves := make([]*LocalPartySaveData, n)
	for i := 0; i < n; i++ {
		select {
		case s := <-end:
			idx, err := s.OriginalIndex()
			v.Assert("original-index", err == nil)
			saves[idx] = s
		default:
			v.Assert("every-party-finishes", false)
			return nil
		}
	}
	select {
	case <-end:
		v.Assert("exactly-one-result-per-party", false)
	default:
	}
	return saves
}

// C03: consistency of the emitted key data
func verifC03Check(saves []*LocalPartySaveData, n, t int) {
	ec := tss.Edwards()
	q := ec.Params().N
	for i := 0; i < n; i++ {
		v.Assert("save-present", saves[i] != nil)
		if saves[i] == nil {
			return
		}
	}
	s0 := saves[0]
	for i := 0; i < n; i++ {
		s := saves[i]
		v.Assert("same-public-key", s.EDDSAPub.Equals(s0.EDDSAPub))
		v.Assert("shareid-is-own-key", v.EqInt(s.ShareID, s.Ks[i]))
		for j := 0; j < n; j++ {
			v.Assert("same-ks", v.EqInt(s.Ks[j], s0.Ks[j]))
			v.Assert("same-bigxj", s.BigXj[j].Equals(s0.BigXj[j]))
		}
		// the secret share times the generator is the party's own public share point
		v.Assume("share-nonzero", !v.CongMod(s.Xi, big.NewInt(0), q)) // coin excluded
		v.Assert("xi-matches-bigxi", crypto.ScalarBaseMult(ec, s.Xi).Equals(s.BigXj[i]))
		v.Assert("xi-canonical", v.InRange(s.Xi, big.NewInt(0), q))
	}
	// no contribution dropped: the public key is (sum of all u_i) * G
	v.Assert("all-contributions-recorded", len(verifUs) == n)
	if len(verifUs) == n {
		sum := new(big.Int)
		for _, u := range verifUs {
			sum.Add(sum, u)
		}
		sum.Mod(sum, q)
		v.Assume("secret-nonzero", sum.Sign() != 0) // coin excluded
		v.Assert("pub-is-sum-of-contributions", crypto.ScalarBaseMult(ec, sum).Equals(s0.EDDSAPub))
	}
	// the public share points lie on one polynomial of degree <= t through the public key:
	// every (t+1)-subset interpolates (in the exponent) to the public key
	for _, sub := range verifSubsets(n, t+1) {
		var acc *crypto.ECPoint
		for _, j := range sub {
			term := s0.BigXj[j].ScalarMult(verifLagrange0(q, s0.Ks, sub, j))
			if acc == nil {
				acc = term
			} else {
				var err error
				acc, err = acc.Add(term)
				v.Assert("interpolation-sum-on-curve", err == nil)
				if err != nil {
					return
				}
			}
		}
		v.Assert("t+1-subset-interpolates-to-pub", acc.Equals(s0.EDDSAPub))
	}
	v.Reach("end")
}

func VerifHarness_C03_eddsa_keygen_n2t1() { verifC03Check(verifRunKeygen(2, 1, 0), 2, 1) }
func VerifHarness_C03_eddsa_keygen_n3t1() { verifC03Check(verifRunKeygen(3, 1, 0), 3, 1) }
func VerifHarness_C03_eddsa_keygen_n3t2() { verifC03Check(verifRunKeygen(3, 2, 0), 3, 2) }
func VerifHarness_C03_eddsa_keygen_n3t1_bigkeys() { verifC03Check(verifRunKeygen(3, 1, 1), 3, 1) }

// a threshold of 3 (degree-3 polynomials: the public shares need key powers up to k^3)
func VerifHarness_C03_eddsa_keygen_n4t3() { verifC03Check(verifRunKeygen(4, 3, 0), 4, 3) }
