//go:build verif

package resharing

import (
	"math/big"

	"github.com/bnb-chain/tss-lib/v2/crypto"
	"github.com/bnb-chain/tss-lib/v2/crypto/vss"
	"github.com/bnb-chain/tss-lib/v2/eddsa/keygen"
	"github.com/bnb-chain/tss-lib/v2/tss"
	v "github.com/bnb-chain/tss-lib/v2/zzverifapi"
	net "github.com/bnb-chain/tss-lib/v2/zzverifnet"
)

func verifNonZero(k int, x *big.Int) bool { return x.Sign() != 0 }

// old key data: an arbitrary consistent (t,n) sharing (the C03 predicate), built directly:
// symbolic polynomial a_0..a_t, concrete distinct keys, Xi = f(k_i), BigXj = Xi*G, pub = a_0*G
func verifOldKeys(n, t int, keys []*big.Int) ([]keygen.LocalPartySaveData, *crypto.ECPoint, []*big.Int) {
	ec := tss.Edwards()
	q := ec.Params().N
	coef := make([]*big.Int, t+1)
	for k := range coef {
		coef[k] = v.NondetNat(v.Name("a", k))
		v.Assume("coefficient-in-Zq*", v.InRange(coef[k], big.NewInt(1), q))
	}
	pub := crypto.ScalarBaseMult(ec, coef[0])
	xs := make([]*big.Int, n)
	bigX := make([]*crypto.ECPoint, n)
	for i := 0; i < n; i++ {
		acc := new(big.Int)
		for k := t; k >= 0; k-- {
			acc.Mul(acc, keys[i])
			acc.Add(acc, coef[k])
		}
		xs[i] = acc.Mod(acc, q)
		v.Assume("old-share-nonzero", xs[i].Sign() != 0) // coin excluded
		bigX[i] = crypto.ScalarBaseMult(ec, xs[i])
	}
	saves := make([]keygen.LocalPartySaveData, n)
	for i := 0; i < n; i++ {
		s := keygen.NewLocalPartySaveData(n)
		s.Xi = xs[i]
		s.ShareID = keys[i]
		s.EDDSAPub = pub
		for j := 0; j < n; j++ {
			s.Ks[j] = keys[j]
			s.BigXj[j] = bigX[j]
		}
		saves[i] = s
	}
	return saves, pub, xs
}

func verifLagrange0(q *big.Int, ks []*big.Int, subset []int, j int) *big.Int {
	num, den := big.NewInt(1), big.NewInt(1)
	for _, m := range subset {
		if m == j {
			continue
		}
		num.Mul(num, ks[m])
		num.Mod(num, q)
		d := new(big.Int).Sub(ks[m], ks[j])
		den.Mul(den, d.Mod(d, q))
		den.Mod(den, q)
	}
	inv := new(big.Int).ModInverse(den, q)
	return num.Mul(num, inv).Mod(num, q)
}

func verifSubsets(n, k int) [][]int {
	var out [][]int
	var rec func(start int, cur []int)
	rec = func(start int, cur []int) {
		if len(cur) == k {
			out = append(out, append([]int{}, cur...))
			return
		}
		for i := start; i < n; i++ {
			rec(i+1, append(cur, i))
		}
	}
	rec(0, nil)
	return out
}

type verifDelivery struct {
	msg   tss.Message
	toOld bool
	idx   int
}

// C04 for EdDSA: resharing old (n,t) -> new (n2,t2) with disjoint ids, under a delivery mode
func verifC04(n, t, n2, t2, mode int) {
	ec := tss.Edwards()
	q := ec.Params().N
	oldKeys := []*big.Int{big.NewInt(1), big.NewInt(2), big.NewInt(3)}[:n]
	newKeys := []*big.Int{big.NewInt(11), big.NewInt(12), big.NewInt(13)}[:n2]
	oldSaves, pub, _ := verifOldKeys(n, t, oldKeys)
	mk := func(keys []*big.Int, pre string) tss.SortedPartyIDs {
		ids := make(tss.UnSortedPartyIDs, len(keys))
		for i := range ids {
			ids[i] = tss.NewPartyID(v.Name(pre, i), v.Name(pre, i), keys[i])
		}
		return tss.SortPartyIDs(ids)
	}
	oldIDs, newIDs := mk(oldKeys, "old"), mk(newKeys, "new")
	oldCtx, newCtx := tss.NewPeerContext(oldIDs), tss.NewPeerContext(newIDs)
	out := make(chan tss.Message, 256)
	end := make(chan *keygen.LocalPartySaveData, 2*(n+n2))
	oldP := make([]tss.Party, n)
	newP := make([]tss.Party, n2)
	for i := 0; i < n; i++ {
		params := tss.NewReSharingParameters(ec, oldCtx, newCtx, oldIDs[i], n, t, n2, t2)
		params.SetRand(v.ReaderWith(v.Name("oldrand", i), verifNonZero))
		oldP[i] = NewLocalParty(params, oldSaves[i], out, end)
	}
	for i := 0; i < n2; i++ {
		params := tss.NewReSharingParameters(ec, oldCtx, newCtx, newIDs[i], n, t, n2, t2)
		params.SetRand(v.ReaderWith(v.Name("newrand", i), verifNonZero))
		newP[i] = NewLocalParty(params, keygen.NewLocalPartySaveData(n2), out, end)
	}
	lateStarted := verifC04Late < 0
	lateR1 := 0
	for i := range newP {
		if i == verifC04Late {
			continue // started only after every old member's round-1 message has reached it (C07)
		}
		v.Assert("start-succeeds", newP[i].Start() == nil)
	}
	for i := range oldP {
		v.Assert("start-succeeds", oldP[i].Start() == nil)
	}
	acks := make([]int, n2) // DGRound4Message sent by new member i
	var pending []verifDelivery
	drain := func() {
		for {
			select {
			case msg := <-out:
				if _, ok := msg.(tss.ParsedMessage).Content().(*DGRound4Message); ok {
					acks[msg.GetFrom().Index]++
				}
				dest := msg.GetTo()
				v.Assert("resharing-messages-have-explicit-recipients", dest != nil)
				if msg.IsToOldCommittee() || msg.IsToOldAndNewCommittees() {
					for _, d := range dest[:n] {
						pending = append(pending, verifDelivery{msg, true, d.Index})
					}
				}
				if msg.IsToOldAndNewCommittees() {
					// To = old ids followed by new ids
					for _, d := range dest[n:] {
						pending = append(pending, verifDelivery{msg, false, d.Index})
					}
				} else if !msg.IsToOldCommittee() {
					for _, d := range dest {
						pending = append(pending, verifDelivery{msg, false, d.Index})
					}
				}
			default:
				return
			}
		}
	}
	allAcked := func() bool {
		for _, a := range acks {
			if a != 1 {
				return false
			}
		}
		return true
	}
	newSaves := make([]*keygen.LocalPartySaveData, n2)
	oldEnded := 0
	collect := func() {
		for {
			select {
			case sv := <-end:
				if sv.Xi != nil {
					// a new member emits key material only after every new member acknowledged
					v.Assert("new-member-emits-only-after-all-acks", allAcked())
					idx, err := sv.OriginalIndex()
					v.Assert("original-index", err == nil)
					v.Assert("one-result-per-new-member", newSaves[idx] == nil)
					newSaves[idx] = sv
				} else {
					oldEnded++
				}
			default:
				return
			}
		}
	}
	step := 0
	forged, detected := false, false
	drain()
	for len(pending) > 0 {
		i := 0
		switch mode {
		case net.LIFO:
			i = len(pending) - 1
		case net.Choose:
			i = v.NondetInt(v.Name("pick", step), 0, len(pending)-1)
		}
		step++
		d := pending[i]
		pending = append(pending[:i:i], pending[i+1:]...)
		pm := net.Parse(d.msg)
		if c3, ok := pm.Content().(*DGRound3Message1); ok && verifC04Adv >= 0 && !d.toOld && d.idx == 0 && d.msg.GetFrom().Index == verifC04Adv {
			// the hostile old member hands new member 0 a share that is not on its committed polynomial
			// (any other value; its commitments and every other message stay honest)
			real := new(big.Int).SetBytes(c3.GetShare())
			fake := v.NondetNat("fake_share")
			v.Assume("fake-share-differs", !v.CongMod(fake, real, q))
			v.Assume("fake-share-is-a-field-value", v.InRange(fake, big.NewInt(1), q))
			pm = NewDGRound3Message1(newIDs[0], d.msg.GetFrom(), &vss.Share{Threshold: t2, ID: newKeys[0], Share: fake})
			forged = true
		}
		var err *tss.Error
		if d.toOld {
			_, err = oldP[d.idx].Update(pm)
		} else {
			_, err = newP[d.idx].Update(pm)
		}
		if _, r1 := pm.Content().(*DGRound1Message); r1 && !d.toOld && d.idx == verifC04Late {
			lateR1++
		}
		if !lateStarted && (lateR1 == n || len(pending) == 0) {
			// the late member's local Start() comes after all of its round-1 messages were delivered
			lateStarted = true
			v.Assert("late-start-succeeds", newP[verifC04Late].Start() == nil)
		}
		if verifC04Adv >= 0 {
			if err != nil {
				v.Assert("error-only-at-the-victim-after-the-forgery", forged && !d.toOld && d.idx == 0)
				cs := err.Culprits()
				v.Assert("exactly-the-hostile-member-is-blamed", len(cs) == 1 && cs[0].KeyInt().Cmp(oldKeys[verifC04Adv]) == 0)
				detected = true
			}
		} else {
			v.Assert("no-update-errors", err == nil)
		}
		// retire-last: at every point of the run, an erased old share implies all acks were sent
		for j := 0; j < n; j++ {
			erased := oldSaves[j].Xi.Sign() == 0
			v.Assert("old-share-erased-only-after-all-acks", v.Implies(erased, allAcked()))
		}
		drain()
		collect()
		if verifC04WaitingFor && !d.toOld && newSaves[d.idx] == nil {
			// C08: an old member from which nothing is missing any more (all three of its messages
			// to this new member are stored) is not reported as awaited
			lp := newP[d.idx].(*LocalParty)
			wf := newP[d.idx].WaitingFor()
			for j := 0; j < n; j++ {
				if lp.temp.dgRound1Messages[j] == nil || lp.temp.dgRound3Message1s[j] == nil || lp.temp.dgRound3Message2s[j] == nil {
					continue
				}
				awaited := false
				for _, w := range wf {
					if w.KeyInt().Cmp(oldKeys[j]) == 0 {
						awaited = true
					}
				}
				v.Observe("waitingfor-excludes-old-member-with-nothing-missing", !awaited)
				verifC04WFChecks++
			}
		}
	}
	collect()
	if verifC04WaitingFor {
		v.Assert("waitingfor-probes-were-made", verifC04WFChecks > 0)
	}
	if verifC04Adv >= 0 {
		v.Assert("forgery-was-delivered", forged)
		v.Assert("wrong-share-detected-by-the-victim", detected)
		for i := 0; i < n2; i++ {
			v.Assert("no-new-member-emits-key-material", newSaves[i] == nil)
		}
		for j := 0; j < n; j++ {
			v.Assert("no-old-share-erased", oldSaves[j].Xi.Sign() != 0)
		}
		v.Reach("end")
		return
	}
	v.Assert("late-member-was-started", lateStarted)
	v.Assert("all-old-members-finish", oldEnded == n)
	for j := 0; j < n; j++ {
		v.Assert("old-share-erased-at-the-end", oldSaves[j].Xi.Sign() == 0)
	}
	for i := 0; i < n2; i++ {
		v.Assert("every-new-member-finishes", newSaves[i] != nil)
		if newSaves[i] == nil {
			return
		}
	}
	// the new members hold a consistent (t2,n2) sharing of the SAME public key
	s0 := newSaves[0]
	for i := 0; i < n2; i++ {
		s := newSaves[i]
		v.Assert("same-public-key-as-before", s.EDDSAPub.Equals(pub))
		v.Assert("shareid-is-own-key", v.EqInt(s.ShareID, newKeys[i]))
		for j := 0; j < n2; j++ {
			v.Assert("same-ks", v.EqInt(s.Ks[j], newKeys[j]))
			v.Assert("same-bigxj", s.BigXj[j].Equals(s0.BigXj[j]))
		}
		v.Assume("new-share-nonzero", !v.CongMod(s.Xi, big.NewInt(0), q))
		v.Assert("xi-matches-bigxi", crypto.ScalarBaseMult(ec, s.Xi).Equals(s.BigXj[i]))
	}
	for _, sub := range verifSubsets(n2, t2+1) {
		var acc *crypto.ECPoint
		for _, j := range sub {
			term := s0.BigXj[j].ScalarMult(verifLagrange0(q, newKeys, sub, j))
			if acc == nil {
				acc = term
			} else {
				var err error
				acc, err = acc.Add(term)
				v.Assert("interpolation-sum-on-curve", err == nil)
				if err != nil {
					return
				}
			}
		}
		v.Assert("t2+1-subset-interpolates-to-pub", acc.Equals(pub))
	}
	v.Reach("end")
}

func VerifHarness_C04_eddsa_reshare_2of2_to_2of2_fifo() { verifC04(2, 1, 2, 1, net.FIFO) }
func VerifHarness_C04_eddsa_reshare_2of2_to_2of2_lifo() { verifC04(2, 1, 2, 1, net.LIFO) }
func VerifHarness_C04_eddsa_reshare_2of3_to_3of3_fifo() { verifC04(3, 1, 3, 2, net.FIFO) }
func VerifHarness_C04_eddsa_reshare_3of3_to_2of2_fifo() { verifC04(3, 2, 2, 1, net.FIFO) }

// C05 for resharing: old member verifC04Adv deviates by sending new member 0 a share that is
// not on its committed polynomial (every value other than the right one). The victim must
// detect it and blame exactly that old member; nobody emits new key material and no old
// share is erased.
var verifC04Adv = -1

// C08 for resharing: WaitingFor() of a new member, after every delivery, under LIFO delivery
// (the last sender's messages arrive first)
var verifC04WaitingFor = false
var verifC04WFChecks = 0

func VerifHarness_C08_eddsa_reshare_3to3_lifo_waitingfor() {
	verifC04WaitingFor = true
	verifC04(3, 1, 3, 2, net.LIFO)
}

// C07 for resharing: new member verifC04Late calls Start() only after every old member's
// round-1 message has been delivered to it (messages delivered before the local Start call);
// the run must still complete with the C04 outcome, with no party left waiting
var verifC04Late = -1

func VerifHarness_C07_eddsa_reshare_new_member_starts_late_2to2() {
	verifC04Late = 0
	verifC04(2, 1, 2, 1, net.FIFO)
}
func VerifHarness_C07_eddsa_reshare_new_member_starts_late_3to3() {
	verifC04Late = 1
	verifC04(3, 1, 3, 2, net.FIFO)
}

func VerifHarness_C05_eddsa_reshare_hostile_old_member_2to2() {
	verifC04Adv = 1
	verifC04(2, 1, 2, 1, net.FIFO)
}
func VerifHarness_C05_eddsa_reshare_hostile_old_member_3to3() {
	verifC04Adv = 0
	verifC04(3, 1, 3, 2, net.FIFO)
}
