//go:build verif

package signing

import (
	"math/big"

	v "github.com/bnb-chain/tss-lib/v2/zzverifapi"
)

// C02 byte layer: the real byte helpers against the RFC 8032 encodings, for every 32-byte value
// (this is what justifies their summaries in the protocol-level harness)
func VerifHarness_C02_bytes_scalar_encoding() {
	v.NoSummaries()
	b := v.NondetBytes("b", 32) // big-endian bytes of x, any leading zeros
	x := new(big.Int).SetBytes(b)
	enc := bigIntToEncodedBytes(x)
	for i := 0; i < 32; i++ {
		v.Assert("little-endian-32-byte-encoding", enc[i] == b[31-i])
	}
	v.Assert("decode-inverts-encode", v.EqInt(encodedBytesToBigInt(enc), x))
	v.Reach("end")
}

func VerifHarness_C02_bytes_point_encoding() {
	v.NoSummaries()
	bx := v.NondetBytes("x", 32)
	by := v.NondetBytes("y", 32)
	p := new(big.Int).Sub(new(big.Int).Lsh(big.NewInt(1), 255), big.NewInt(19))
	x, y := new(big.Int).SetBytes(bx), new(big.Int).SetBytes(by)
	// full-length encodings (leading zero bytes are the subject of the scalar harness)
	v.Assume("no-leading-zero-byte", v.All(bx[0] != 0, by[0] != 0))
	v.Assume("coordinates-below-p", v.All(v.LtInt(x, p), v.LtInt(y, p)))
	enc := ecPointToEncodedBytes(x, y)
	for i := 0; i < 31; i++ {
		v.Assert("rfc8032-y-little-endian", enc[i] == by[31-i])
	}
	v.Assert("rfc8032-top-byte-carries-x-parity", enc[31] == by[0]|((bx[31]&1)<<7))
	v.Reach("end")
}
