//go:build verif

package signing

import (
	"math/big"

	"github.com/bnb-chain/tss-lib/v2/common"
	"github.com/bnb-chain/tss-lib/v2/crypto"
	"github.com/bnb-chain/tss-lib/v2/eddsa/keygen"
	"github.com/bnb-chain/tss-lib/v2/tss"
	v "github.com/bnb-chain/tss-lib/v2/zzverifapi"
	net "github.com/bnb-chain/tss-lib/v2/zzverifnet"
)

// snapshot of every integer reachable from a party's key data (fresh copies), together
// with the identity of the objects themselves
type verifKeySnap struct {
	ints []*big.Int
	ptrs []*big.Int
	pts  []*crypto.ECPoint
}

func verifSnap(s *keygen.LocalPartySaveData) *verifKeySnap {
	sn := &verifKeySnap{}
	add := func(x *big.Int) {
		sn.ptrs = append(sn.ptrs, x)
		sn.ints = append(sn.ints, new(big.Int).Set(x))
	}
	addPt := func(p *crypto.ECPoint) {
		sn.pts = append(sn.pts, p)
		for _, c := range []*big.Int{p.X(), p.Y()} {
			sn.ptrs = append(sn.ptrs, nil)
			sn.ints = append(sn.ints, c)
		}
	}
	add(s.Xi)
	add(s.ShareID)
	for _, k := range s.Ks {
		add(k)
	}
	for _, p := range s.BigXj {
		addPt(p)
	}
	addPt(s.EDDSAPub)
	return sn
}

func verifSameKey(label string, s *keygen.LocalPartySaveData, sn *verifKeySnap) {
	now := verifSnap(s)
	v.Assert(label+"-same-shape", len(now.ints) == len(sn.ints))
	if len(now.ints) != len(sn.ints) {
		return
	}
	// order of the integers: Xi, ShareID, Ks..., BigXj coordinates..., EDDSAPub coordinates
	for i := range now.ints {
		v.Assert(v.Name(label+"-value", i), v.EqInt(now.ints[i], sn.ints[i]))
		// (ECPoint.X()/Y() return copies: object identity is checked on the points instead)
		if sn.ptrs[i] != nil {
			v.Assert(v.Name(label+"-object", i), now.ptrs[i] == sn.ptrs[i])
		}
	}
	for i := range now.pts {
		v.Assert(v.Name(label+"-point-object", i), now.pts[i] == sn.pts[i])
	}
}

// one signing session of all n parties over the given key data; returns the signatures and
// the first coin each party drew (its nonce share r_i)
func verifSession20(tag string, saves []keygen.LocalPartySaveData, keys []*big.Int, t int, m *big.Int, afterStart func()) ([]*common.SignatureData, []*big.Int, bool) {
	ec := tss.Edwards()
	n := len(saves)
	ids := make(tss.UnSortedPartyIDs, n)
	for i := range ids {
		ids[i] = tss.NewPartyID(v.Name("id", i), v.Name("P", i), keys[i])
	}
	pIDs := tss.SortPartyIDs(ids)
	ctx := tss.NewPeerContext(pIDs)
	out := make(chan tss.Message, 256)
	end := make(chan *common.SignatureData, 2*n)
	parties := make([]tss.Party, n)
	first := make([]*big.Int, n)
	for i := range pIDs {
		params := tss.NewParameters(ec, ctx, pIDs[i], n, t)
		i := i
		params.SetRand(v.ReaderWith(v.Name(tag, i), func(k int, x *big.Int) bool {
			if k == 0 {
				first[i] = x
			}
			return x.Sign() != 0
		}))
		parties[i] = NewLocalParty(m, params, saves[i], out, end)
	}
	for i := range parties {
		if parties[i].Start() != nil {
			return nil, nil, false
		}
	}
	if afterStart != nil {
		afterStart() // the key data right after round 1 (the path condition is still small here)
	}
	hook := func(msg tss.Message, to *tss.PartyID) tss.ParsedMessage {
		pm := net.Parse(msg)
		switch c := pm.Content().(type) {
		case *SignRound2Message:
			v.Assume("schnorr-response-nonzero", len(c.GetProofT()) > 0)
		}
		return pm
	}
	errs := net.Pump(parties, out, hook)
	if len(errs) > 0 {
		return nil, nil, false
	}
	var sigs []*common.SignatureData
	for range parties {
		select {
		case s := <-end:
			sigs = append(sigs, s)
		default:
			return nil, nil, false
		}
	}
	return sigs, first, true
}

// C20: two complete signing sessions on the same key data, same message, same signers:
// the key data of every party is untouched after each (values and object identity), and
// the two signatures use different nonces R unless the fresh coins themselves collide.
func VerifHarness_C20_eddsa_two_sessions_n2t1() {
	q := tss.Edwards().Params().N
	keys := []*big.Int{big.NewInt(1), big.NewInt(2)}
	saves, _ := verifKeyData(2, 1, keys)
	snaps := make([]*verifKeySnap, len(saves))
	for i := range saves {
		snaps[i] = verifSnap(&saves[i])
	}
	m := v.NondetNat("m")
	v.Assume("message-fits", v.LtInt(m, new(big.Int).Lsh(big.NewInt(1), 256)))
	m0 := new(big.Int).Set(m)
	sig1, r1, ok := verifSession20("s1rand", saves, keys, 1, m, func() {
		for i := range saves {
			verifSameKey("key-data-unchanged-after-round-1", &saves[i], snaps[i])
		}
	})
	v.Assert("first-session-completes", ok)
	if !ok {
		return
	}
	for i := range saves {
		verifSameKey("key-data-unchanged-after-session-1", &saves[i], snaps[i])
	}
	v.Assert("message-unchanged", v.EqInt(m, m0))
	sig2, r2, ok := verifSession20("s2rand", saves, keys, 1, m, nil)
	v.Assert("second-session-completes", ok)
	if !ok {
		return
	}
	for i := range saves {
		verifSameKey("key-data-unchanged-after-session-2", &saves[i], snaps[i])
	}
	// nonce freshness: R is a function of this session's first coins only
	sum1 := new(big.Int).Add(r1[0], r1[1])
	sum2 := new(big.Int).Add(r2[0], r2[1])
	v.Assume("fresh-coins-do-not-collide", !v.CongMod(sum1, sum2, q))
	v.Assert("different-nonce-R", !v.EqBytes(sig1[0].R, sig2[0].R))
	// (Signature[:32] is the little-endian encoding of the same R)
	_ = sig2[0].Signature
	v.Reach("end")
}
