//go:build verif

package signing

import (
	"crypto/ed25519"
	"math/big"

	"github.com/bnb-chain/tss-lib/v2/common"
	"github.com/bnb-chain/tss-lib/v2/crypto"
	"github.com/bnb-chain/tss-lib/v2/eddsa/keygen"
	"github.com/bnb-chain/tss-lib/v2/tss"
	v "github.com/bnb-chain/tss-lib/v2/zzverifapi"
	net "github.com/bnb-chain/tss-lib/v2/zzverifnet"
)

func verifNonZero(k int, x *big.Int) bool { return x.Sign() != 0 }

// key data: an arbitrary consistent (t,n) sharing (the C03 predicate), built directly
func verifKeyData(n, t int, keys []*big.Int) ([]keygen.LocalPartySaveData, *crypto.ECPoint) {
	ec := tss.Edwards()
	q := ec.Params().N
	coef := make([]*big.Int, t+1)
	for k := range coef {
		coef[k] = v.NondetNat(v.Name("a", k))
		v.Assume("coefficient-in-Zq*", v.InRange(coef[k], big.NewInt(1), q))
	}
	pub := crypto.ScalarBaseMult(ec, coef[0])
	xs := make([]*big.Int, n)
	bigX := make([]*crypto.ECPoint, n)
	for i := 0; i < n; i++ {
		acc := new(big.Int)
		for k := t; k >= 0; k-- {
			acc.Mul(acc, keys[i])
			acc.Add(acc, coef[k])
		}
		xs[i] = acc.Mod(acc, q)
		v.Assume("share-nonzero", xs[i].Sign() != 0) // coin excluded
		bigX[i] = crypto.ScalarBaseMult(ec, xs[i])
	}
	saves := make([]keygen.LocalPartySaveData, n)
	for i := 0; i < n; i++ {
		s := keygen.NewLocalPartySaveData(n)
		s.Xi, s.ShareID, s.EDDSAPub = xs[i], keys[i], pub
		for j := 0; j < n; j++ {
			s.Ks[j], s.BigXj[j] = keys[j], bigX[j]
		}
		saves[i] = s
	}
	return saves, pub
}

// C02: signers (indices into the n key holders) sign message m; every signer's output is the
// same 64 bytes and verifies under the 32-byte public key with the standard library's
// independent verifier over exactly the echoed message bytes.
func verifC02(n, t int, signers []int, msgLen int, fullBytes int) {
	ec := tss.Edwards()
	allKeys := []*big.Int{big.NewInt(1), big.NewInt(2), big.NewInt(3), big.NewInt(4)}[:n]
	saves, pub := verifKeyData(n, t, allKeys)
	// the message: an arbitrary integer below 256^msgLen (leading zero bytes included)
	m := v.NondetNat("m")
	v.Assume("message-fits", v.LtInt(m, new(big.Int).Lsh(big.NewInt(1), uint(8*msgLen))))
	ids := make(tss.UnSortedPartyIDs, len(signers))
	for i, s := range signers {
		ids[i] = tss.NewPartyID(v.Name("id", s), v.Name("P", s), allKeys[s])
	}
	pIDs := tss.SortPartyIDs(ids)
	ctx := tss.NewPeerContext(pIDs)
	out := make(chan tss.Message, 256)
	end := make(chan *common.SignatureData, 2*len(signers))
	parties := make([]tss.Party, len(signers))
	for i := range pIDs {
		params := tss.NewParameters(ec, ctx, pIDs[i], len(signers), t)
		params.SetRand(v.ReaderWith(v.Name("rand", i), verifNonZero))
		// the key of the signer with this (sorted) id
		var key keygen.LocalPartySaveData
		for j, s := range signers {
			_ = j
			if allKeys[s].Cmp(pIDs[i].KeyInt()) == 0 {
				key = saves[s]
			}
		}
		if fullBytes > 0 {
			parties[i] = NewLocalParty(m, params, key, out, end, fullBytes)
		} else {
			parties[i] = NewLocalParty(m, params, key, out, end)
		}
	}
	for i := range parties {
		v.Assert("start-succeeds", parties[i].Start() == nil)
	}
	hook := func(msg tss.Message, to *tss.PartyID) tss.ParsedMessage {
		pm := net.Parse(msg)
		// coins excluded on honest messages: Schnorr response / partial signature equal to 0
		switch c := pm.Content().(type) {
		case *SignRound2Message:
			v.Assume("schnorr-response-nonzero", len(c.GetProofT()) > 0)
		}
		return pm
	}
	var errs []net.UpdateErr
	if verifC02Mode == net.FIFO {
		errs = net.Pump(parties, out, hook)
	} else {
		// C07 for signing: the delivery order is the scheduler's (every order / LIFO)
		sc := &net.Sched{Parties: parties, Out: out, Mode: verifC02Mode, Dup: verifC02Dup, Hook: hook}
		sc.Run()
		errs = sc.Errs
	}
	if len(errs) > 0 {
		v.Note("update error: " + errs[0].Err.Cause().Error())
	}
	v.Assert("no-update-errors", len(errs) == 0)
	var sigs []*common.SignatureData
	for range parties {
		select {
		case s := <-end:
			sigs = append(sigs, s)
		default:
			v.Assert("every-signer-finishes", false)
			return
		}
	}
	encPub := ecPointToEncodedBytes(pub.X(), pub.Y())
	for _, s := range sigs {
		v.Assert("signature-is-64-bytes", len(s.Signature) == 64)
		if len(s.Signature) != 64 {
			return
		}
		v.Assert("all-signers-same-signature", v.EqBytes(s.Signature, sigs[0].Signature))
		// the echoed message: the digest bytes (left-padded when a full length is requested)
		if fullBytes > 0 {
			v.Assert("echoed-message-has-full-length", len(s.M) == fullBytes)
		}
		v.Assert("echoed-message-is-m", v.EqInt(new(big.Int).SetBytes(s.M), m))
		v.Assert("verifies-with-independent-ed25519", ed25519.Verify(ed25519.PublicKey(encPub[:]), s.M, s.Signature))
	}
	v.Reach("end")
}

func VerifHarness_C02_eddsa_sign_n2t1_all()       { verifC02(2, 1, []int{0, 1}, 32, 0) }
func VerifHarness_C02_eddsa_sign_n3t1_sub02()     { verifC02(3, 1, []int{0, 2}, 32, 0) }
func VerifHarness_C02_eddsa_sign_n3t1_all3()      { verifC02(3, 1, []int{0, 1, 2}, 32, 0) }
func VerifHarness_C02_eddsa_sign_n2t1_full32()    { verifC02(2, 1, []int{0, 1}, 32, 32) }
func VerifHarness_C02_eddsa_sign_n2t1_longmsg()   { verifC02(2, 1, []int{1, 0}, 64, 64) }
func VerifHarness_C02_eddsa_sign_n3t2_all3_short() { verifC02(3, 2, []int{2, 1, 0}, 1, 0) }

// C07 for EdDSA signing (n=2): every causally consistent delivery order, LIFO, and every
// message delivered twice; in each schedule all coins are symbolic and the C02 oracle above
// is discharged by the solver
var (
	verifC02Mode = net.FIFO
	verifC02Dup  = false
)

func VerifHarness_C07_eddsa_sign_n2_all_orders() {
	verifC02Mode = net.Choose
	verifC02(2, 1, []int{0, 1}, 32, 0)
}
func VerifHarness_C07_eddsa_sign_n3_lifo() {
	verifC02Mode = net.LIFO
	verifC02(3, 1, []int{0, 1, 2}, 32, 0)
}
func VerifHarness_C07_eddsa_sign_n2_dup_lifo() {
	verifC02Mode, verifC02Dup = net.LIFO, true
	verifC02(2, 1, []int{0, 1}, 32, 0)
}
