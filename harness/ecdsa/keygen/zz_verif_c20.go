//go:build verif

package keygen

import (
	"math/big"

	"github.com/bnb-chain/tss-lib/v2/crypto"
	"github.com/bnb-chain/tss-lib/v2/crypto/paillier"
	"github.com/bnb-chain/tss-lib/v2/tss"
	v "github.com/bnb-chain/tss-lib/v2/zzverifapi"
)

// C20: BuildLocalSaveDataSubset for every ordered choice of 1..3 distinct signers out of
// four saved parties (keys of different byte lengths, symbolic payload): every per-party
// array of the subset is re-indexed by the same source index (the entry whose key is the
// signer's key), the source data is untouched, and the subset's arrays are fresh slices.
func VerifHarness_C20_ecdsa_subset_reindexing() {
	ec := tss.S256()
	keys := []*big.Int{big.NewInt(7), big.NewInt(300), new(big.Int).Lsh(big.NewInt(1), 255), big.NewInt(65536)}
	n := len(keys)
	src := NewLocalPartySaveData(n)
	src.Xi, src.ShareID = v.NondetNat("xi"), keys[0]
	src.ECDSAPub = crypto.ScalarBaseMult(ec, big.NewInt(5))
	for j := 0; j < n; j++ {
		src.Ks[j] = keys[j]
		src.NTildej[j] = v.NondetNat(v.Name("ntilde", j))
		src.H1j[j] = v.NondetNat(v.Name("h1", j))
		src.H2j[j] = v.NondetNat(v.Name("h2", j))
		src.BigXj[j] = crypto.ScalarBaseMult(ec, big.NewInt(int64(j+2)))
		src.PaillierPKs[j] = &paillier.PublicKey{N: v.NondetNat(v.Name("pk", j))}
	}
	// an ordered choice of k distinct signers (the caller passes them sorted by key, as
	// SortPartyIDs does; the function itself must not depend on it, so any order is tried)
	k := v.NondetInt("k", 1, 3)
	pick := make([]int, k)
	ids := make(tss.UnSortedPartyIDs, 0, k)
	for i := 0; i < k; i++ {
		pick[i] = v.NondetInt(v.Name("pick", i), 0, n-1)
		for _, p := range pick[:i] {
			v.Assume("distinct-signers", p != pick[i])
		}
		ids = append(ids, tss.NewPartyID(v.Name("id", i), "", keys[pick[i]]))
	}
	for i := range ids {
		ids[i].Index = i
	}
	sub := BuildLocalSaveDataSubset(src, tss.SortedPartyIDs(ids))
	v.Assert("subset-has-k-entries", len(sub.Ks) == k && len(sub.NTildej) == k && len(sub.H1j) == k && len(sub.H2j) == k && len(sub.BigXj) == k && len(sub.PaillierPKs) == k)
	for i := 0; i < k; i++ {
		s := pick[i]
		ok := sub.Ks[i] == src.Ks[s] && sub.NTildej[i] == src.NTildej[s] && sub.H1j[i] == src.H1j[s] &&
			sub.H2j[i] == src.H2j[s] && sub.BigXj[i] == src.BigXj[s] && sub.PaillierPKs[i] == src.PaillierPKs[s]
		v.Assert("entry-is-the-signers-own-data", ok)
	}
	v.Assert("secrets-and-public-key-carried-over", sub.Xi == src.Xi && sub.ShareID == src.ShareID && sub.ECDSAPub == src.ECDSAPub)
	// fresh slices: writing the subset does not write the source
	sub.Ks[0], sub.BigXj[0], sub.NTildej[0] = nil, nil, nil
	for j := 0; j < n; j++ {
		v.Assert("source-untouched", src.Ks[j] == keys[j] && src.BigXj[j] != nil && src.NTildej[j] != nil)
	}
	v.Reach("end")
}
