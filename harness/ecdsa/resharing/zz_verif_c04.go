//go:build verif

package resharing

import (
	"math/big"

	"github.com/bnb-chain/tss-lib/v2/ecdsa/keygen"
	"github.com/bnb-chain/tss-lib/v2/tss"
	v "github.com/bnb-chain/tss-lib/v2/zzverifapi"
)

// C04 "old shares are retired last", ECDSA resharing, unit level: rounds 4 and 5 of a member
// of the OLD committee (not in the new one), from a directly constructed state — the whole
// ECDSA resharing (Paillier, ring-Pedersen and factorisation proofs of the new members) is
// outside the executor, this part of it is not. For EVERY subset of the new committee whose
// acknowledgement (DGRound4Message2) has been delivered: the member may proceed to round 5
// exactly when every new member has acknowledged; until then its stored share is intact and
// every new member whose acknowledgement is missing is reported by WaitingFor(); once all
// have acknowledged, round 5 erases the share and reports completion. Old-committee index
// and committee sizes vary per harness (an old index equal to, below and above the new
// committee's size).
func verifC04OldRetiresLast(nOld, nNew, self int) {
	ec := tss.S256()
	q := ec.Params().N
	mk := func(n int, pre string, base int64) tss.SortedPartyIDs {
		ids := make(tss.UnSortedPartyIDs, n)
		for i := range ids {
			ids[i] = tss.NewPartyID(v.Name(pre, i), v.Name(pre, i), big.NewInt(base+int64(i)))
		}
		return tss.SortPartyIDs(ids)
	}
	oldIDs, newIDs := mk(nOld, "old", 1), mk(nNew, "new", 11)
	oldCtx, newCtx := tss.NewPeerContext(oldIDs), tss.NewPeerContext(newIDs)
	params := tss.NewReSharingParameters(ec, oldCtx, newCtx, oldIDs[self], nOld, 1, nNew, 1)
	xi := v.NondetNat("xi")
	v.Assume("share-in-Zq*", v.InRange(xi, big.NewInt(1), q))
	xiBefore := new(big.Int).Set(xi)
	input := keygen.NewLocalPartySaveData(nOld)
	input.Xi = xi
	save := keygen.NewLocalPartySaveData(nNew)
	out := make(chan tss.Message, 4)
	end := make(chan *keygen.LocalPartySaveData, 2)
	temp := &localTempData{}
	temp.dgRound4Message1s = make([]tss.ParsedMessage, nNew)
	temp.dgRound4Message2s = make([]tss.ParsedMessage, nNew)
	b := &base{ReSharingParameters: params, temp: temp, input: &input, save: &save, out: out, end: end,
		oldOK: make([]bool, nOld), newOK: make([]bool, nNew), number: 3}
	// as round 3 leaves the flags of an old member (round 3 Start: resetOK; allNewOK; allOldOK)
	b.allNewOK()
	b.allOldOK()
	r4 := &round4{&round3{&round2{&round1{b}}}}
	v.Assert("round4-starts", r4.Start() == nil)
	both := append(append([]*tss.PartyID{}, oldIDs...), newIDs...)
	delivered := make([]bool, nNew)
	all := true
	for j := 0; j < nNew; j++ {
		delivered[j] = v.NondetBool(v.Name("ack", j))
		if delivered[j] {
			temp.dgRound4Message2s[j] = NewDGRound4Message2(both, newIDs[j])
		} else {
			all = false
		}
	}
	_, err := r4.Update()
	v.Assert("update-succeeds", err == nil)
	v.Assert("proceeds-exactly-when-every-new-member-acknowledged", r4.CanProceed() == all)
	v.Assert("share-intact-before-round-5", v.EqInt(input.Xi, xiBefore))
	wf := r4.WaitingFor()
	for j := 0; j < nNew; j++ {
		awaited := false
		for _, w := range wf {
			if w.KeyInt().Cmp(newIDs[j].KeyInt()) == 0 {
				awaited = true
			}
		}
		v.Assert("missing-acknowledgement-is-awaited", v.Implies(!delivered[j], awaited))
		v.Observe("waitingfor-excludes-new-member-that-acknowledged", v.Implies(delivered[j], !awaited))
	}
	for _, w := range wf {
		for k := 0; k < nOld; k++ {
			v.Assert("no-old-member-is-awaited-in-round-4", w.KeyInt().Cmp(oldIDs[k].KeyInt()) != 0)
		}
	}
	select {
	case <-end:
		v.Assert("nothing-reported-before-round-5", false)
	default:
	}
	if !all {
		v.Reach("held-back")
		return
	}
	r5 := r4.NextRound()
	v.Assert("round5-starts", r5.Start() == nil)
	v.Assert("share-erased-in-round-5", input.Xi.Sign() == 0)
	select {
	case <-end:
	default:
		v.Assert("completion-reported", false)
	}
	v.Reach("retired")
}

func VerifHarness_C04_ecdsa_reshare_old_member_retires_last_2to3_idx0() { verifC04OldRetiresLast(2, 3, 0) }
func VerifHarness_C04_ecdsa_reshare_old_member_retires_last_3to3_idx2() { verifC04OldRetiresLast(3, 3, 2) }
func VerifHarness_C04_ecdsa_reshare_old_member_retires_last_4to2_idx3() { verifC04OldRetiresLast(4, 2, 3) }

// C08 "WaitingFor is exact", ECDSA resharing round 3 at a NEW-committee member, unit level:
// for every subset of the old members' round-3 messages already stored (the p2p share and
// the broadcast de-commitment of each old member separately; contents empty, Update only
// looks at the slots and the channel kind), after Update WaitingFor() names exactly the old
// members from which something is missing and no new member, and the round proceeds exactly
// when nothing is missing.
func VerifHarness_C08_ecdsa_reshare_round3_waitingfor_unit() {
	ec := tss.S256()
	const nOld, nNew = 3, 2
	mk := func(n int, pre string, base int64) tss.SortedPartyIDs {
		ids := make(tss.UnSortedPartyIDs, n)
		for i := range ids {
			ids[i] = tss.NewPartyID(v.Name(pre, i), v.Name(pre, i), big.NewInt(base+int64(i)))
		}
		return tss.SortPartyIDs(ids)
	}
	oldIDs, newIDs := mk(nOld, "old", 1), mk(nNew, "new", 11)
	params := tss.NewReSharingParameters(ec, tss.NewPeerContext(oldIDs), tss.NewPeerContext(newIDs), newIDs[0], nOld, 1, nNew, 1)
	input := keygen.NewLocalPartySaveData(nOld)
	save := keygen.NewLocalPartySaveData(nNew)
	temp := &localTempData{}
	temp.dgRound3Message1s = make([]tss.ParsedMessage, nOld)
	temp.dgRound3Message2s = make([]tss.ParsedMessage, nOld)
	b := &base{ReSharingParameters: params, temp: temp, input: &input, save: &save, out: make(chan tss.Message, 1),
		end: make(chan *keygen.LocalPartySaveData, 1), oldOK: make([]bool, nOld), newOK: make([]bool, nNew), started: true, number: 3}
	// as round 3 Start leaves the flags of a member of the new committee only: resetOK; allNewOK
	b.allNewOK()
	r3 := &round3{&round2{&round1{b}}}
	msg := func(from *tss.PartyID, bcast bool, content tss.MessageContent) tss.ParsedMessage {
		meta := tss.MessageRouting{From: from, IsBroadcast: bcast}
		if !bcast {
			meta.To = []*tss.PartyID{newIDs[0]}
		} else {
			meta.To = newIDs
		}
		return tss.NewMessage(meta, content, tss.NewMessageWrapper(meta, content))
	}
	missing := make([]bool, nOld)
	none := true
	for j := 0; j < nOld; j++ {
		d1, d2 := v.NondetBool(v.Name("p2p", j)), v.NondetBool(v.Name("bcast", j))
		if d1 {
			temp.dgRound3Message1s[j] = msg(oldIDs[j], false, &DGRound3Message1{})
		}
		if d2 {
			temp.dgRound3Message2s[j] = msg(oldIDs[j], true, &DGRound3Message2{})
		}
		missing[j] = !d1 || !d2
		if missing[j] {
			none = false
		}
	}
	_, err := r3.Update()
	v.Assert("waitingfor-unit-update-succeeds", err == nil)
	wf := r3.WaitingFor()
	for j := 0; j < nOld; j++ {
		awaited := false
		for _, w := range wf {
			if w.KeyInt().Cmp(oldIDs[j].KeyInt()) == 0 {
				awaited = true
			}
		}
		v.Assert("waitingfor-exact-after-update (unit, old members)", awaited == missing[j])
	}
	for _, w := range wf {
		for k := 0; k < nNew; k++ {
			v.Assert("waitingfor-names-no-new-member-in-round-3", w.KeyInt().Cmp(newIDs[k].KeyInt()) != 0)
		}
	}
	v.Assert("waitingfor-unit-proceeds-exactly-when-nothing-is-missing", r3.CanProceed() == none)
	v.Reach("end")
}
