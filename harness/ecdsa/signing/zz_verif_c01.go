//go:build verif

package signing

import (
	"math/big"

	"github.com/bnb-chain/tss-lib/v2/common"
	"github.com/bnb-chain/tss-lib/v2/crypto"
	"github.com/bnb-chain/tss-lib/v2/crypto/paillier"
	"github.com/bnb-chain/tss-lib/v2/ecdsa/keygen"
	"github.com/bnb-chain/tss-lib/v2/tss"
	v "github.com/bnb-chain/tss-lib/v2/zzverifapi"
	net "github.com/bnb-chain/tss-lib/v2/zzverifnet"
)

func verifNonZero(k int, x *big.Int) bool { return x.Sign() != 0 }

// ECDSA key data: an arbitrary consistent (t,n) sharing (the C03 predicate) with symbolic
// 2048-bit Paillier moduli and ring-Pedersen parameters (Paillier and the MtA proofs are at
// their specification: Summarise("ideal-paillier"))
func verifKeyData(n, t int, keys []*big.Int) ([]keygen.LocalPartySaveData, *crypto.ECPoint, *big.Int) {
	ec := tss.S256()
	q := ec.Params().N
	two := big.NewInt(2)
	lo, hi := new(big.Int).Exp(two, big.NewInt(2047), nil), new(big.Int).Exp(two, big.NewInt(2048), nil)
	coef := make([]*big.Int, t+1)
	for k := range coef {
		coef[k] = v.NondetNat(v.Name("a", k))
		v.Assume("coefficient-in-Zq*", v.InRange(coef[k], big.NewInt(1), q))
	}
	pub := crypto.ScalarBaseMult(ec, coef[0])
	xs := make([]*big.Int, n)
	bigX := make([]*crypto.ECPoint, n)
	Ns := make([]*big.Int, n)
	nts := make([]*big.Int, n)
	h1s := make([]*big.Int, n)
	h2s := make([]*big.Int, n)
	for i := 0; i < n; i++ {
		acc := new(big.Int)
		for k := t; k >= 0; k-- {
			acc.Mul(acc, keys[i])
			acc.Add(acc, coef[k])
		}
		xs[i] = acc.Mod(acc, q)
		v.Assume("share-nonzero", xs[i].Sign() != 0) // coin excluded
		bigX[i] = crypto.ScalarBaseMult(ec, xs[i])
		Ns[i] = v.NondetNat(v.Name("N", i))
		v.Assume("N-has-2048-bits", v.InRange(Ns[i], lo, hi))
		nts[i] = v.NondetNat(v.Name("NTilde", i))
		v.Assume("NTilde-has-2048-bits", v.InRange(nts[i], lo, hi))
		h1s[i], h2s[i] = v.NondetNat(v.Name("h1", i)), v.NondetNat(v.Name("h2", i))
		v.Assume("h1-h2-in-range", v.All(v.InRange(h1s[i], two, nts[i]), v.InRange(h2s[i], two, nts[i])))
	}
	saves := make([]keygen.LocalPartySaveData, n)
	for i := 0; i < n; i++ {
		s := keygen.NewLocalPartySaveData(n)
		s.Xi, s.ShareID, s.ECDSAPub = xs[i], keys[i], pub
		s.PaillierSK = &paillier.PrivateKey{PublicKey: paillier.PublicKey{N: Ns[i]}}
		for j := 0; j < n; j++ {
			s.Ks[j], s.BigXj[j] = keys[j], bigX[j]
			s.PaillierPKs[j] = &paillier.PublicKey{N: Ns[j]}
			s.NTildej[j], s.H1j[j], s.H2j[j] = nts[j], h1s[j], h2s[j]
		}
		saves[i] = s
	}
	return saves, pub, coef[0]
}

// C01: the signers produce one valid canonical ECDSA signature of the digest m
func verifC01(n, t int, signers []int, fullBytes int) {
	v.Summarise("ideal-paillier")
	v.Summarise("generic-coins") // all parties honest: coin coincidences are excluded and counted
	v.Summarise("mta-no-wrap")   // MtA plaintexts a*b + beta' stay below N (decided by C13 for N > q^8)
	ec := tss.S256()
	q := ec.Params().N
	allKeys := []*big.Int{big.NewInt(1), big.NewInt(2), big.NewInt(3), big.NewInt(4)}[:n]
	saves, pub, _ := verifKeyData(n, t, allKeys)
	// C18 / C20: signing with an HD derivation offset delta: the parties sign for the child key
	// pub + delta*G; the stored secret shares Xi must stay as they were
	var delta *big.Int
	xiBefore := make([]*big.Int, len(saves))
	for i := range saves {
		xiBefore[i] = new(big.Int).Set(saves[i].Xi)
	}
	if verifC01KDD {
		delta = v.NondetNat("delta")
		v.Assume("offset-in-Zq*", v.InRange(delta, big.NewInt(1), q))
		child, err := pub.Add(crypto.ScalarBaseMult(ec, delta))
		if err != nil {
			return // child key at infinity: refused by the derivation (C18)
		}
		v.Assert("adjusting-the-public-data-succeeds", UpdatePublicKeyAndAdjustBigXj(delta, saves, child.ToECDSAPubKey(), ec) == nil)
		pub = child
	}
	m := v.NondetNat("m")
	v.Assume("digest-below-order", v.LtInt(m, q))
	ids := make(tss.UnSortedPartyIDs, len(signers))
	for i, s := range signers {
		ids[i] = tss.NewPartyID(v.Name("id", s), v.Name("P", s), allKeys[s])
	}
	pIDs := tss.SortPartyIDs(ids)
	ctx := tss.NewPeerContext(pIDs)
	out := make(chan tss.Message, 512)
	end := make(chan *common.SignatureData, 2*len(signers))
	parties := make([]tss.Party, len(signers))
	for i := range pIDs {
		params := tss.NewParameters(ec, ctx, pIDs[i], len(signers), t)
		params.SetRand(v.ReaderWith(v.Name("rand", i), verifNonZero))
		var key keygen.LocalPartySaveData
		for _, s := range signers {
			if allKeys[s].Cmp(pIDs[i].KeyInt()) == 0 {
				key = saves[s]
			}
		}
		if fullBytes > 0 {
			parties[i] = NewLocalParty(m, params, key, out, end, fullBytes)
		} else {
			if verifC01KDD {
				parties[i] = NewLocalPartyWithKDD(m, params, key, delta, out, end)
			} else {
				parties[i] = NewLocalParty(m, params, key, out, end)
			}
		}
	}
	for i := range parties {
		v.Assert("start-succeeds", parties[i].Start() == nil)
	}
	hook := func(msg tss.Message, to *tss.PartyID) tss.ParsedMessage {
		pm := net.Parse(msg)
		// coins excluded on honest messages: a Schnorr response equal to 0 (probability 1/q each)
		switch c := pm.Content().(type) {
		case *SignRound4Message:
			v.Assume("schnorr-response-nonzero", len(c.GetProofT()) > 0)
		case *SignRound6Message:
			v.Assume("schnorr-response-nonzero", len(c.GetProofT()) > 0 && len(c.GetVProofT()) > 0 && len(c.GetVProofU()) > 0)
		}
		return pm
	}
	errs := net.Pump(parties, out, hook)
	if len(errs) > 0 {
		v.Note("update error: " + errs[0].Err.Cause().Error())
	}
	v.Assert("no-update-errors", len(errs) == 0)
	var sigs []*common.SignatureData
	for range parties {
		select {
		case s := <-end:
			sigs = append(sigs, s)
		default:
			v.Assert("every-signer-finishes", false)
			return
		}
	}
	halfQ := new(big.Int).Rsh(q, 1)
	for _, s := range sigs {
		v.Assert("r-is-32-bytes", len(s.R) == 32)
		v.Assert("s-is-32-bytes", len(s.S) == 32)
		v.Assert("signature-is-64-bytes", len(s.Signature) == 64)
		if len(s.R) != 32 || len(s.S) != 32 || len(s.Signature) != 64 {
			return
		}
		v.Assert("signature-is-R||S", v.All(v.EqBytes(s.Signature[:32], s.R), v.EqBytes(s.Signature[32:], s.S)))
		v.Assert("all-signers-same-signature", v.EqBytes(s.Signature, sigs[0].Signature))
		v.Assert("recovery-byte-present", len(s.SignatureRecovery) == 1)
		v.Assert("echoed-message-is-m", v.EqInt(new(big.Int).SetBytes(s.M), m))
		if fullBytes > 0 {
			v.Assert("echoed-message-has-full-length", len(s.M) == fullBytes)
		}
		r, sv := new(big.Int).SetBytes(s.R), new(big.Int).SetBytes(s.S)
		v.Assert("low-S", v.LeInt(sv, halfQ))
		v.Assert("r-s-in-range", v.All(v.InRange(r, big.NewInt(1), q), v.InRange(sv, big.NewInt(1), q)))
		// textbook ECDSA verification written with the harness's own arithmetic
		w := new(big.Int).ModInverse(sv, q)
		v.Assert("s-invertible", w != nil)
		if w == nil {
			return
		}
		u1 := new(big.Int).Mul(m, w)
		u1.Mod(u1, q)
		u2 := new(big.Int).Mul(r, w)
		u2.Mod(u2, q)
		v.Assume("u1-u2-nonzero", v.All(u1.Sign() != 0, u2.Sign() != 0)) // m = 0 handled by the m=0 harness
		P, err := crypto.ScalarBaseMult(ec, u1).Add(pub.ScalarMult(u2))
		v.Assert("verification-point-finite", err == nil)
		if err != nil {
			return
		}
		px := P.X()
		// x(u1*G + u2*Y) mod q == r (r is already reduced: asserted above)
		v.Assert("verifies-with-textbook-ecdsa", v.EqInt(new(big.Int).Mod(px, q), r))
	}
	for i := range saves {
		v.Assert("stored-secret-share-unchanged", v.EqInt(saves[i].Xi, xiBefore[i]))
	}
	v.Reach("end")
}

func VerifHarness_C01_ecdsa_sign_n2t1_all()   { verifC01(2, 1, []int{0, 1}, 0) }
func VerifHarness_C01_ecdsa_sign_n3t1_sub02() { verifC01(3, 1, []int{0, 2}, 0) }
func VerifHarness_C01_ecdsa_sign_n3t1_all3()  { verifC01(3, 1, []int{0, 1, 2}, 0) }
func VerifHarness_C01_ecdsa_sign_n2t1_full32() { verifC01(2, 1, []int{1, 0}, 32) }

// C18 (signing part) / C20: a signature produced with the derivation offset delta verifies
// under the child key pub + delta*G, for every delta in [1,q); the stored Xi are untouched
var verifC01KDD = false

func VerifHarness_C01_ecdsa_sign_n2t1_with_derivation_offset() {
	verifC01KDD = true
	verifC01(2, 1, []int{0, 1}, 0)
}

// a digest not below the curve order is refused before any message is sent
func VerifHarness_C01_ecdsa_sign_digest_too_large() {
	v.Summarise("ideal-paillier")
	ec := tss.S256()
	q := ec.Params().N
	allKeys := []*big.Int{big.NewInt(1), big.NewInt(2)}
	saves, _, _ := verifKeyData(2, 1, allKeys)
	m := v.NondetNat("m")
	v.Assume("digest-not-below-order", v.LeInt(q, m))
	ids := tss.UnSortedPartyIDs{tss.NewPartyID("id0", "P0", allKeys[0]), tss.NewPartyID("id1", "P1", allKeys[1])}
	pIDs := tss.SortPartyIDs(ids)
	ctx := tss.NewPeerContext(pIDs)
	out := make(chan tss.Message, 16)
	end := make(chan *common.SignatureData, 2)
	params := tss.NewParameters(ec, ctx, pIDs[0], 2, 1)
	params.SetRand(v.ReaderWith("rand", verifNonZero))
	P := NewLocalParty(m, params, saves[0], out, end)
	err := P.Start()
	v.Assert("start-refuses-large-digest", err != nil)
	select {
	case <-out:
		v.Assert("no-message-sent-before-refusal", false)
	default:
	}
	v.Reach("end")
}
