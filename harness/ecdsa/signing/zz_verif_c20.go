//go:build verif

package signing

import (
	"math/big"

	"github.com/bnb-chain/tss-lib/v2/common"
	"github.com/bnb-chain/tss-lib/v2/crypto"
	"github.com/bnb-chain/tss-lib/v2/crypto/paillier"
	"github.com/bnb-chain/tss-lib/v2/ecdsa/keygen"
	"github.com/bnb-chain/tss-lib/v2/tss"
	v "github.com/bnb-chain/tss-lib/v2/zzverifapi"
)

// C20 (ECDSA, frame condition): constructing a signing party from saved key data and running
// its first round — with or without an HD derivation offset delta, for every delta in [1,q),
// every digest and every key sharing — leaves the caller's stored key data as it was: the
// secret share Xi (the value behind the caller's pointer), the share ids and the public share
// points. Checked right after Start(), where the path condition is still small (a session
// aborted after round 1 is one of the histories of the property); the whole-session variant
// is VerifHarness_C01_ecdsa_sign_n2t1_with_derivation_offset.
func verifC20Start(withDelta, concreteKey bool) {
	v.Summarise("ideal-paillier")
	v.Summarise("generic-coins")
	ec := tss.S256()
	q := ec.Params().N
	allKeys := []*big.Int{big.NewInt(1), big.NewInt(2)}
	var saves []keygen.LocalPartySaveData
	if concreteKey {
		// concrete sharing 5 + 7x and concrete 2048-bit parameters: only the offset and the digest
		// are symbolic, so a counterexample replays natively
		saves = verifConcreteKeyData(allKeys)
	} else {
		saves, _, _ = verifKeyData(2, 1, allKeys)
	}
	m := v.NondetNat("m")
	v.Assume("digest-below-order", v.LtInt(m, q))
	ids := tss.UnSortedPartyIDs{tss.NewPartyID("id0", "P0", allKeys[0]), tss.NewPartyID("id1", "P1", allKeys[1])}
	pIDs := tss.SortPartyIDs(ids)
	ctx := tss.NewPeerContext(pIDs)
	out := make(chan tss.Message, 16)
	end := make(chan *common.SignatureData, 2)
	for i := 0; i < 2; i++ {
		xiPtr := saves[i].Xi
		xiBefore := new(big.Int).Set(saves[i].Xi)
		bigXBefore := saves[i].BigXj[i]
		params := tss.NewParameters(ec, ctx, pIDs[i], 2, 1)
		params.SetRand(v.ReaderWith(v.Name("rand", i), verifNonZero))
		var P tss.Party
		if withDelta {
			delta := v.NondetNat(v.Name("delta", i))
			v.Assume("offset-in-Zq*", v.InRange(delta, big.NewInt(1), q))
			P = NewLocalPartyWithKDD(m, params, saves[i], delta, out, end)
		} else {
			P = NewLocalParty(m, params, saves[i], out, end)
		}
		v.Assert("start-succeeds", P.Start() == nil)
		v.Assert("stored-share-pointer-unchanged", saves[i].Xi == xiPtr)
		v.Assert("stored-secret-share-unchanged", v.EqInt(xiPtr, xiBefore))
		v.Assert("stored-share-ids-unchanged", v.All(v.EqInt(saves[i].Ks[0], allKeys[0]), v.EqInt(saves[i].Ks[1], allKeys[1]), v.EqInt(saves[i].ShareID, allKeys[i])))
		v.Assert("stored-public-share-unchanged", saves[i].BigXj[i] == bigXBefore)
	}
	v.Reach("end")
}

func verifConcreteKeyData(keys []*big.Int) []keygen.LocalPartySaveData {
	ec := tss.S256()
	q := ec.Params().N
	n := len(keys)
	base := new(big.Int).Lsh(big.NewInt(1), 2047)
	saves := make([]keygen.LocalPartySaveData, n)
	xs := make([]*big.Int, n)
	for i := range keys {
		xs[i] = new(big.Int).Mul(big.NewInt(7), keys[i])
		xs[i].Add(xs[i], big.NewInt(5))
		xs[i].Mod(xs[i], q)
	}
	for i := 0; i < n; i++ {
		s := keygen.NewLocalPartySaveData(n)
		s.Xi, s.ShareID, s.ECDSAPub = new(big.Int).Set(xs[i]), keys[i], crypto.ScalarBaseMult(ec, big.NewInt(5))
		s.PaillierSK = &paillier.PrivateKey{PublicKey: paillier.PublicKey{N: new(big.Int).Add(base, big.NewInt(int64(2*i+1)))}}
		for j := 0; j < n; j++ {
			s.Ks[j], s.BigXj[j] = keys[j], crypto.ScalarBaseMult(ec, xs[j])
			s.PaillierPKs[j] = &paillier.PublicKey{N: new(big.Int).Add(base, big.NewInt(int64(2*j+1)))}
			s.NTildej[j], s.H1j[j], s.H2j[j] = new(big.Int).Add(base, big.NewInt(int64(2*j+101))), big.NewInt(4), big.NewInt(9)
		}
		saves[i] = s
	}
	return saves
}

func VerifHarness_C20_ecdsa_sign_start_leaves_key_untouched()             { verifC20Start(false, false) }
func VerifHarness_C20_ecdsa_sign_start_with_offset_leaves_key_untouched() { verifC20Start(true, false) }
func VerifHarness_C20_ecdsa_sign_start_with_offset_concrete_key()         { verifC20Start(true, true) }
