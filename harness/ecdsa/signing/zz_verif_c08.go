//go:build verif

package signing

import (
	"math/big"

	"github.com/bnb-chain/tss-lib/v2/common"
	"github.com/bnb-chain/tss-lib/v2/ecdsa/keygen"
	"github.com/bnb-chain/tss-lib/v2/tss"
	v "github.com/bnb-chain/tss-lib/v2/zzverifapi"
)

// C08 "WaitingFor is exact", ECDSA signing rounds 1 and 2 at unit level: the round's Update()
// and WaitingFor() from a directly constructed state with 3 signers, for EVERY subset of the
// peers' messages already stored (round 1: the p2p MtA message and the commitment broadcast
// of each peer separately; round 2: each peer's p2p MtA response). Update only looks at
// which slots are filled and at the channel kind, so the message contents are empty. After
// Update, WaitingFor() names exactly the peers from which something is still missing, and the
// round can proceed exactly when nothing is missing.
func verifC08SignUpdate(rnd int) {
	ec := tss.S256()
	const n = 3
	idsU := make(tss.UnSortedPartyIDs, n)
	for j := range idsU {
		idsU[j] = tss.NewPartyID(v.Name("id", j), v.Name("P", j), big.NewInt(int64(j+1)))
	}
	ids := tss.SortPartyIDs(idsU)
	params := tss.NewParameters(ec, tss.NewPeerContext(ids), ids[0], n, 1)
	key := keygen.NewLocalPartySaveData(n)
	temp := &localTempData{}
	temp.signRound1Message1s = make([]tss.ParsedMessage, n)
	temp.signRound1Message2s = make([]tss.ParsedMessage, n)
	temp.signRound2Messages = make([]tss.ParsedMessage, n)
	b := &base{Parameters: params, key: &key, data: &common.SignatureData{}, temp: temp,
		out: make(chan tss.Message, 1), end: make(chan *common.SignatureData, 1), ok: make([]bool, n), started: true, number: rnd}
	b.ok[0] = true // the party's own slot, as Start() of the round leaves it
	r1 := &round1{b}
	var rd tss.Round = r1
	if rnd == 2 {
		rd = &round2{r1}
	}
	mk := func(from *tss.PartyID, bcast bool, content tss.MessageContent) tss.ParsedMessage {
		meta := tss.MessageRouting{From: from, IsBroadcast: bcast}
		if !bcast {
			meta.To = []*tss.PartyID{ids[0]}
		}
		return tss.NewMessage(meta, content, tss.NewMessageWrapper(meta, content))
	}
	missing := make([]bool, n)
	none := true
	for j := 1; j < n; j++ {
		if rnd == 1 {
			d1, d2 := v.NondetBool(v.Name("p2p", j)), v.NondetBool(v.Name("bcast", j))
			if d1 {
				temp.signRound1Message1s[j] = mk(ids[j], false, &SignRound1Message1{})
			}
			if d2 {
				temp.signRound1Message2s[j] = mk(ids[j], true, &SignRound1Message2{})
			}
			missing[j] = !d1 || !d2
		} else {
			d := v.NondetBool(v.Name("p2p", j))
			if d {
				temp.signRound2Messages[j] = mk(ids[j], false, &SignRound2Message{})
			}
			missing[j] = !d
		}
		if missing[j] {
			none = false
		}
	}
	_, err := rd.Update()
	v.Assert("waitingfor-unit-update-succeeds", err == nil)
	wf := rd.WaitingFor()
	for j := 0; j < n; j++ {
		awaited := false
		for _, w := range wf {
			if w.Index == j {
				awaited = true
			}
		}
		v.Assert("waitingfor-exact-after-update (unit)", awaited == missing[j])
	}
	v.Assert("waitingfor-unit-proceeds-exactly-when-nothing-is-missing", rd.CanProceed() == none)
	v.Reach("end")
}

func VerifHarness_C08_ecdsa_sign_round1_waitingfor_unit() { verifC08SignUpdate(1) }
func VerifHarness_C08_ecdsa_sign_round2_waitingfor_unit() { verifC08SignUpdate(2) }
