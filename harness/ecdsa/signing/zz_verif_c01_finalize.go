//go:build verif

package signing

import (
	"math/big"

	"github.com/bnb-chain/tss-lib/v2/common"
	"github.com/bnb-chain/tss-lib/v2/crypto"
	"github.com/bnb-chain/tss-lib/v2/ecdsa/keygen"
	"github.com/bnb-chain/tss-lib/v2/tss"
	v "github.com/bnb-chain/tss-lib/v2/zzverifapi"
)

// C01, unit level ("drive the unit, not the program"): the finalization round alone, from an
// arbitrary state that the nine rounds before it can leave behind. The state is constructed
// directly: a private key d, digest m, additive shares s_0 + s_1 = k^-1 (m + r d) of the
// signature scalar (s_0 in the local temp data, s_1 in the peer's round-9 message), all
// symbolic; the nonce point R = k*G is CONCRETE (k = 1, 2, 3 and the first k whose x
// coordinate has a leading zero byte), so that nothing the verdict depends on lives in an
// uninterpreted coordinate and every counterexample replays natively. No summaries: the
// real padToLengthBytesInPlace and the real low-S / recovery-byte code are executed.
func verifC01Finalize(k int64, fullBytes int, realPad bool) {
	if realPad {
		v.NoSummaries() // the real padToLengthBytesInPlace loop (one path per byte length of S)
	}
	ec := tss.S256()
	q := ec.Params().N
	one := big.NewInt(1)
	d := v.NondetNat("d")
	v.Assume("private-key-in-Zq*", v.InRange(d, one, q))
	pub := crypto.ScalarBaseMult(ec, d)
	R := crypto.ScalarBaseMult(ec, big.NewInt(k))
	rx, ry := R.X(), R.Y()
	r := new(big.Int).Mod(rx, q)
	m := v.NondetNat("m")
	v.Assume("digest-below-order", v.LtInt(m, q))
	kinv := new(big.Int).ModInverse(big.NewInt(k), q)
	s := new(big.Int).Mul(r, d)
	s.Add(s, m)
	s.Mul(s, kinv)
	s.Mod(s, q)
	v.Assume("s-nonzero", s.Sign() != 0) // coin: probability 1/q
	s0 := v.NondetNat("s0")
	v.Assume("local-share-of-s-below-order", v.LtInt(s0, q))
	s1 := new(big.Int).Sub(s, s0)
	s1.Mod(s1, q)
	v.Assume("peer-share-of-s-nonzero", s1.Sign() != 0) // an empty S field does not pass ValidateBasic

	ids := tss.SortPartyIDs(tss.UnSortedPartyIDs{tss.NewPartyID("id0", "P0", big.NewInt(1)), tss.NewPartyID("id1", "P1", big.NewInt(2))})
	ctx := tss.NewPeerContext(ids)
	params := tss.NewParameters(ec, ctx, ids[0], 2, 1)
	key := keygen.NewLocalPartySaveData(2)
	key.ECDSAPub = pub
	end := make(chan *common.SignatureData, 1)
	out := make(chan tss.Message, 1)
	temp := &localTempData{}
	temp.signRound9Messages = make([]tss.ParsedMessage, 2)
	temp.signRound9Messages[1] = NewSignRound9Message(ids[1], s1)
	temp.si = s0
	temp.rx, temp.ry = new(big.Int).Set(rx), new(big.Int).Set(ry)
	temp.m = m
	temp.fullBytesLen = fullBytes
	b := &base{Parameters: params, key: &key, data: &common.SignatureData{}, temp: temp, out: out, end: end, ok: make([]bool, 2), number: 9}
	fin := &finalization{&round9{&round8{&round7{&round6{&round5{&round4{&round3{&round2{&round1{b}}}}}}}}}}
	err := fin.Start()
	v.Assert("finalize-accepts-a-valid-signature", err == nil)
	if err != nil {
		return
	}
	var sig *common.SignatureData
	select {
	case sig = <-end:
	default:
		v.Assert("finalize-emits-the-signature", false)
		return
	}
	halfQ := new(big.Int).Rsh(q, 1)
	v.Assert("r-is-32-bytes", len(sig.R) == 32)
	v.Assert("s-is-32-bytes", len(sig.S) == 32)
	v.Assert("signature-is-64-bytes", len(sig.Signature) == 64)
	if len(sig.R) != 32 || len(sig.S) != 32 || len(sig.Signature) != 64 {
		return
	}
	v.Assert("signature-is-R||S", v.All(v.EqBytes(sig.Signature[:32], sig.R), v.EqBytes(sig.Signature[32:], sig.S)))
	v.Assert("R-is-the-nonce-x", v.EqInt(new(big.Int).SetBytes(sig.R), rx))
	sv := new(big.Int).SetBytes(sig.S)
	negS := new(big.Int).Sub(q, s)
	v.Assert("S-is-s-or-its-negation", v.Any(v.EqInt(sv, s), v.EqInt(sv, negS)))
	v.Assert("low-S", v.LeInt(sv, halfQ))
	v.Assert("echoed-message-is-m", v.EqInt(new(big.Int).SetBytes(sig.M), m))
	if fullBytes > 0 {
		v.Assert("echoed-message-has-full-length", len(sig.M) == fullBytes)
	}
	v.Assert("recovery-byte-present", len(sig.SignatureRecovery) == 1)
	if len(sig.SignatureRecovery) != 1 {
		return
	}
	// public-key recovery from (r, s', recid): the candidate nonce point R' has x = r (+ q when
	// bit 1 is set) and the y parity of bit 0; it yields r^-1 (s' R' - m G). With s' = s that is
	// d*G iff R' = R; with s' = q - s iff R' = -R, whose y = p - R.y has the other parity.
	flipped := sv.Cmp(s) != 0
	wantBit0 := ry.Bit(0)
	if flipped {
		wantBit0 ^= 1
	}
	var wantBit1 uint
	if rx.Cmp(q) >= 0 {
		wantBit1 = 1
	}
	rec := uint(sig.SignatureRecovery[0])
	v.Assert("recovery-byte-recovers-the-public-key", rec == wantBit0|wantBit1<<1)
	v.Reach("end")
}

func verifFirstShortX(maxLen int) int64 {
	ec := tss.S256()
	for k := int64(1); k < 20000; k++ {
		if len(crypto.ScalarBaseMult(ec, big.NewInt(k)).X().Bytes()) <= maxLen {
			return k
		}
	}
	return 1
}

func VerifHarness_C01_finalize_unit_k1()        { verifC01Finalize(1, 0, true) }
func VerifHarness_C01_finalize_unit_k2()        { verifC01Finalize(2, 0, false) }
func VerifHarness_C01_finalize_unit_k3_full32() { verifC01Finalize(3, 32, false) }
func VerifHarness_C01_finalize_unit_x31()       { verifC01Finalize(verifFirstShortX(31), 0, false) }
