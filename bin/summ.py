#!/usr/bin/env python3
import json,sys
r=json.load(open(sys.argv[1]))
for h in r['results']:
    seen=set()
    for d in (h.get('details') or [])[:3]: print('   D', d[:400])
    for n in (h.get('notes') or [])[:3]: print('   N', n[:200])
    for o in h['obligations'] or []:
        k=(o['kind'],o['label'][:90],o.get('site'),o['status'])
        if k in seen or o['status']=='discharged': continue
        seen.add(k); print('  ',h['harness'].split('.')[-1], k, (o.get('diag') or '')[:100], str(o.get('model'))[:400])
